#!/usr/bin/env python3
"""Prints a markdown table of what the last runs covered (from evidence/*.json)."""
import json, glob
print("| id | tier | level | evaluations | distinct outcomes | non-trivial | states / transitions / traces | exhaustive | wall s |")
print("|---|---|---|---|---|---|---|---|---|")
for f in sorted(glob.glob("/verif/results/*.json")):
    e = json.load(open(f)); c = e["coverage"]
    print(f"| {e['property_id']} | {e['tier']} | {e['level']} | {c.get('evaluations')} | {c.get('distinct_outcomes')} | {c.get('distinct_nontrivial')} | {c.get('states','-')} / {c.get('transitions','-')} / {c.get('traces_validated_against_impl','-')} | {c.get('exhaustive')} | {e['wall_s']:.1f} |")
