#!/usr/bin/env python3
"""Prints the markdown detection matrix: deliberate mutations (demos/) and independently seeded changes (seeded/)."""
import json, glob, os, sys
sys.path.insert(0, "/verif/demos")
from mutations import M
res = json.load(open("/verif/demos/last_results.json")) if os.path.exists("/verif/demos/last_results.json") else {}
print("### Deliberate changes written alongside the checks (`demos/mutations.py`; all pass the repository's 69 tests)\n")
print("| change | file | caught by (quick tier) | not caught by |")
print("|---|---|---|---|")
for name, f, old, new, checks in M:
    if old is None: continue
    r = res.get(name, {})
    c = ", ".join(k for k, v in r.items() if v) or "-"
    m = ", ".join(k for k, v in r.items() if not v) or "-"
    if not checks:
        c = "(breaks no listed property: kept as a false-alarm control, every check must stay silent)"
    print(f"| {name} | {f} | {c} | {m} |")
print("\n### Changes written independently by sub-agents that saw only the property text (`seeded/<id>/`)\n")
print("| seed | breaks | what it needs to manifest | confirmed (tests pass, demo fails with / passes without) | caught by | missed by |")
print("|---|---|---|---|---|---|")
for d in sorted(glob.glob("/verif/seeded/C*")):
    mp = os.path.join(d, "meta.json")
    if not os.path.exists(mp): continue
    m = json.load(open(mp))
    c = ", ".join(k for k, v in m["checks_quick"].items() if v) or "-"
    x = ", ".join(k for k, v in m["checks_quick"].items() if not v) or "-"
    print(f"| {m['seed']} | {m['property']} | {m['needs_to_manifest']} | {'yes' if m['confirmed'] else 'NO'} | {c} | {x} |")
