#!/usr/bin/env python3
"""mkoverlay.py <outdir>: writes <outdir>/overlay.json for `go build -overlay`: every non-test .go
file of /repo that imports "sync" or "sync/atomic" is replaced by a copy importing the shim
package under the same name; the shim is added as virtual package /repo/verifshim."""
import sys, os, re, json
out = sys.argv[1]
REPO = os.environ.get("VERIF_REPO", "/repo").rstrip("/")
os.makedirs(out, exist_ok=True)
repl = {}
n = 0
for root, dirs, files in os.walk(REPO):
    dirs[:] = [d for d in dirs if not d.startswith(".") and d not in ("testdata", "verifshim")]
    for f in files:
        if not f.endswith(".go") or f.endswith("_test.go"):
            continue
        p = os.path.join(root, f)
        s = open(p, encoding="utf-8", errors="replace").read()
        t = re.sub(r'^(\s*)"sync"\s*$', r'\1sync "github.com/ulikunitz/xz/verifshim"', s, flags=re.M)
        t = re.sub(r'^(\s*)"sync/atomic"\s*$', r'\1atomic "github.com/ulikunitz/xz/verifshim"', t, flags=re.M)
        t = re.sub(r'^import "sync"\s*$', 'import sync "github.com/ulikunitz/xz/verifshim"', t, flags=re.M)
        if t != s:
            q = os.path.join(out, "f%d_%s" % (n, f))
            n += 1
            open(q, "w").write(t)
            repl[p] = q
repl[REPO + "/verifshim/shim.go"] = os.path.join(os.path.dirname(os.path.dirname(os.path.abspath(__file__))), "overlays/verifshim/shim.go")
json.dump({"Replace": repl}, open(os.path.join(out, "overlay.json"), "w"), indent=1)
print(n, "files rewritten")
