#!/usr/bin/env python3
"""liblzma encoder helper: records (fmt:1 'x'|'a', preset:1, check:1, lc:1, lp:1, pb:1, dict:4 LE, len:4 LE, data) -> (len:4 LE, data).
preset 255 = use explicit filter (lc/lp/pb/dict)."""
import sys, lzma, struct
inp, out = sys.stdin.buffer, sys.stdout.buffer
def rd(n):
    b = b""
    while len(b) < n:
        c = inp.read(n - len(b))
        if not c: sys.exit(0)
        b += c
    return b
while True:
    h = inp.read(1)
    if not h: break
    preset, check, lc, lp, pb = rd(5)
    ds, ln = struct.unpack("<II", rd(8))
    data = rd(ln)
    try:
        if h == b"x":
            if preset == 255:
                res = lzma.compress(data, format=lzma.FORMAT_XZ, check=check, filters=[{"id": lzma.FILTER_LZMA2, "lc": lc, "lp": lp, "pb": pb, "dict_size": ds}])
            else:
                res = lzma.compress(data, format=lzma.FORMAT_XZ, check=check, preset=preset)
        else:
            if preset == 255:
                res = lzma.compress(data, format=lzma.FORMAT_ALONE, filters=[{"id": lzma.FILTER_LZMA1, "lc": lc, "lp": lp, "pb": pb, "dict_size": ds}])
            else:
                res = lzma.compress(data, format=lzma.FORMAT_ALONE, preset=preset)
    except Exception as e:
        res = b""
    out.write(struct.pack("<I", len(res)) + res)
    out.flush()
