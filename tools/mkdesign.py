#!/usr/bin/env python3
"""Regenerates the two generated tables of DESIGN.md (between the <!-- X:begin --> / <!-- X:end -->
markers) from evidence/*.json (bounds_table.py) and demos/last_results.json + seeded/*/meta.json
(detection_table.py)."""
import subprocess, re, os
root = os.path.dirname(os.path.dirname(os.path.abspath(__file__)))
p = os.path.join(root, "DESIGN.md")
s = open(p).read()
for name, tool in (("BOUNDS_TABLE", "bounds_table.py"), ("DETECTION_TABLE", "detection_table.py")):
    out = subprocess.run(["python3", os.path.join(root, "tools", tool)], capture_output=True, text=True, check=True).stdout
    block = f"<!-- {name}:begin -->\n{out}<!-- {name}:end -->"
    if f"@@{name}@@" in s:
        s = s.replace(f"@@{name}@@", block)
    else:
        s = re.sub(rf"<!-- {name}:begin -->.*?<!-- {name}:end -->", lambda m: block, s, flags=re.S)
open(p, "w").write(s)
