#!/usr/bin/env python3
"""Second opinion by liblzma: reads records (kind:1, dict:4 LE, len:4 LE, data) from stdin,
answers per record: status:1 ('K' ok / 'E' error / 'T' truncated-or-needs-more), len:4 LE, sha256:32.
kind 'x' = .xz (all concatenated streams), 'a' = .lzma, 'r' = raw LZMA2 with dict size,
'X' = .xz single stream: report unused trailing length as error."""
import sys, lzma, hashlib, struct
inp, out = sys.stdin.buffer, sys.stdout.buffer
def rd(n):
    b = b""
    while len(b) < n:
        c = inp.read(n - len(b))
        if not c: sys.exit(0)
        b += c
    return b
while True:
    h = inp.read(1)
    if not h: break
    kind = h
    ds, ln = struct.unpack("<II", rd(8))
    data = rd(ln)
    st, res = b"K", b""
    try:
        if kind == b"x":
            res = lzma.decompress(data, format=lzma.FORMAT_XZ)
        elif kind == b"a":
            d = lzma.LZMADecompressor(format=lzma.FORMAT_ALONE)
            res = d.decompress(data)
            if not d.eof: st = b"T"
            elif d.unused_data: st = b"U"
        elif kind == b"r":
            d = lzma.LZMADecompressor(format=lzma.FORMAT_RAW, filters=[{"id": lzma.FILTER_LZMA2, "dict_size": ds}])
            res = d.decompress(data)
            if not d.eof: st = b"T"
            elif d.unused_data: st = b"U"
    except EOFError:
        st = b"T"
    except lzma.LZMAError:
        st = b"E"
    except Exception:
        st = b"E"
    out.write(st + struct.pack("<I", len(res)) + hashlib.sha256(res).digest())
    out.flush()
