#!/bin/bash
# validates MANIFEST.json and all evidence files against the schemas
python3-vt - <<'PY'
import json,jsonschema,glob,sys
ok=True
try:
    jsonschema.validate(json.load(open('/verif/MANIFEST.json')),json.load(open('/root/.vp/MANIFEST.schema.json')))
except Exception as e:
    print("MANIFEST invalid:",str(e)[:300]); ok=False
s=json.load(open('/root/.vp/EVIDENCE.schema.json'))
for f in sorted(glob.glob('/verif/evidence/*.json')):
    try: jsonschema.validate(json.load(open(f)),s)
    except Exception as e: print(f,"invalid:",str(e)[:300]); ok=False
print("schemas ok" if ok else "SCHEMA ERRORS")
PY
