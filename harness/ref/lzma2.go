package ref

import (
	"fmt"
)

// ChunkKind enumerates the seven LZMA2 chunk kinds.
type ChunkKind int

const (
	CEnd       ChunkKind = iota // 0x00
	CRawReset                   // 0x01 uncompressed, dictionary reset
	CRaw                        // 0x02 uncompressed
	CLZMA                       // 0x80 no reset
	CLZMAState                  // 0xA0 state reset
	CLZMAProps                  // 0xC0 state reset + new properties
	CLZMAFull                   // 0xE0 state reset + new properties + dictionary reset
)

var chunkNames = [...]string{"end", "raw+dictreset", "raw", "lzma", "lzma+state", "lzma+props", "lzma+props+dictreset"}

func (k ChunkKind) String() string { return chunkNames[k] }

// KindOfControl maps a control byte to its chunk kind (ok=false for 0x03..0x7F).
func KindOfControl(c byte) (ChunkKind, bool) {
	switch {
	case c == 0:
		return CEnd, true
	case c == 1:
		return CRawReset, true
	case c == 2:
		return CRaw, true
	case c < 0x80:
		return 0, false
	}
	switch (c >> 5) & 3 {
	case 0:
		return CLZMA, true
	case 1:
		return CLZMAState, true
	case 2:
		return CLZMAProps, true
	}
	return CLZMAFull, true
}

// ChunkAutomaton is the specification automaton for chunk sequences: flag
// NeedDict (a dictionary reset is still required) and NeedProps (new
// properties are still required before the next LZMA chunk).
type ChunkAutomaton struct {
	NeedDict, NeedProps, Done bool
}

// NewChunkAutomaton returns the start state.
func NewChunkAutomaton() ChunkAutomaton { return ChunkAutomaton{NeedDict: true, NeedProps: true} }

func (a ChunkAutomaton) String() string {
	if a.Done {
		return "T"
	}
	return fmt.Sprintf("D%dP%d", b2i(a.NeedDict), b2i(a.NeedProps))
}

func b2i(b bool) int {
	if b {
		return 1
	}
	return 0
}

// Step applies one chunk kind; ok=false when the format forbids it.
func (a *ChunkAutomaton) Step(k ChunkKind) bool {
	if a.Done {
		return false
	}
	switch k {
	case CEnd:
		a.Done = true
	case CRawReset:
		a.NeedDict = false
		a.NeedProps = true
	case CRaw:
		if a.NeedDict {
			return false
		}
	case CLZMA, CLZMAState:
		if a.NeedDict || a.NeedProps {
			return false
		}
	case CLZMAProps:
		if a.NeedDict {
			return false
		}
		a.NeedProps = false
	case CLZMAFull:
		a.NeedDict = false
		a.NeedProps = false
	}
	return true
}

// ChunkInfo describes one parsed chunk.
type ChunkInfo struct {
	Kind         ChunkKind
	Control      byte
	Offset       int // offset of the control byte
	HeaderLen    int
	Uncompressed int
	Compressed   int
	Props        Props
	MaxDist      uint32
	StateBefore  string
}

// LZMA2Result is the outcome of decoding a chunk sequence.
type LZMA2Result struct {
	Out      []byte
	Chunks   []ChunkInfo
	Consumed int // bytes consumed including the end chunk
	Ended    bool
	Err      error
	// ErrChunk is the index of the chunk at which the error was detected.
	ErrChunk int
	// IllegalSequence is set when the error is a chunk-state rule violation.
	IllegalSequence bool
	Ops             [][]Op // per LZMA chunk when recording
	StatesIn        [][]int
}

// DecodeLZMA2 decodes an LZMA2 chunk sequence ending with the end chunk.
func DecodeLZMA2(in []byte, dictSize uint32, record bool) LZMA2Result {
	var res LZMA2Result
	auto := NewChunkAutomaton()
	win := &Window{}
	var model *Model
	var out []byte
	pos := 0
	fail := func(e error) LZMA2Result {
		res.Out = out
		res.Consumed = pos
		res.Err = e
		res.ErrChunk = len(res.Chunks)
		return res
	}
	for {
		if pos >= len(in) {
			return fail(ErrTruncated)
		}
		c := in[pos]
		kind, ok := KindOfControl(c)
		if !ok {
			res.IllegalSequence = true
			return fail(fmt.Errorf("%w: invalid control byte %#02x", ErrData, c))
		}
		before := auto.String()
		if !auto.Step(kind) {
			res.IllegalSequence = true
			return fail(fmt.Errorf("%w: chunk kind %s not allowed in state %s", ErrData, kind, before))
		}
		ci := ChunkInfo{Kind: kind, Control: c, Offset: pos, StateBefore: before}
		if kind == CEnd {
			ci.HeaderLen = 1
			res.Chunks = append(res.Chunks, ci)
			pos++
			res.Ended = true
			break
		}
		if kind == CRawReset || kind == CRaw {
			if pos+3 > len(in) {
				return fail(ErrTruncated)
			}
			n := int(in[pos+1])<<8 + int(in[pos+2]) + 1
			ci.HeaderLen = 3
			ci.Uncompressed = n
			if pos+3+n > len(in) {
				k := len(in) - pos - 3
				out = append(out, in[pos+3:pos+3+k]...)
				pos = len(in)
				return fail(ErrTruncated)
			}
			if kind == CRawReset {
				win.Buf = win.Buf[:0]
			}
			win.Buf = append(win.Buf, in[pos+3:pos+3+n]...)
			out = append(out, in[pos+3:pos+3+n]...)
			pos += 3 + n
			res.Chunks = append(res.Chunks, ci)
			continue
		}
		hl := 5
		if kind == CLZMAProps || kind == CLZMAFull {
			hl = 6
		}
		if pos+hl > len(in) {
			return fail(ErrTruncated)
		}
		un := int(c&0x1F)<<16 + int(in[pos+1])<<8 + int(in[pos+2]) + 1
		cn := int(in[pos+3])<<8 + int(in[pos+4]) + 1
		ci.HeaderLen, ci.Uncompressed, ci.Compressed = hl, un, cn
		if hl == 6 {
			p, ok := PropsFromCode(in[pos+5])
			if !ok || p.LC+p.LP > 4 {
				return fail(fmt.Errorf("%w: invalid LZMA2 properties byte %#02x", ErrData, in[pos+5]))
			}
			ci.Props = p
			model = NewModel(p)
		} else if kind == CLZMAState {
			model.Reset()
		}
		if model != nil {
			ci.Props = model.P
		}
		if kind == CLZMAFull {
			win.Buf = win.Buf[:0]
		}
		end := pos + hl + cn
		short := false
		if end > len(in) {
			end = len(in)
			short = true
		}
		// keep the window bounded: only the last dictSize bytes matter
		dr := DecodeRaw(in[pos+hl:end], model, win, dictSize, int64(un), false, record)
		out = append(out, dr.Out...)
		ci.MaxDist = dr.MaxDist
		if record {
			res.Ops = append(res.Ops, dr.Ops)
			res.StatesIn = append(res.StatesIn, dr.StatesIn)
		}
		if dr.Err != nil {
			pos = end
			if short {
				return fail(ErrTruncated)
			}
			if dr.Err == ErrTruncated {
				return fail(fmt.Errorf("%w: LZMA data runs past the chunk's compressed size", ErrData))
			}
			return fail(dr.Err)
		}
		if short {
			pos = end
			return fail(ErrTruncated)
		}
		if dr.Consumed != cn {
			pos = end
			return fail(fmt.Errorf("%w: chunk declares %d compressed bytes, LZMA data used %d", ErrData, cn, dr.Consumed))
		}
		pos = end
		res.Chunks = append(res.Chunks, ci)
		if len(win.Buf) > int(dictSize)+(4<<20) && dictSize < 1<<30 {
			// trim the plain window (positions are only used modulo powers of two <= 16,
			// so keep alignment to 16)
			cut := (len(win.Buf) - int(dictSize)) &^ 15
			win.Buf = append(win.Buf[:0], win.Buf[cut:]...)
		}
	}
	res.Out = out
	res.Consumed = pos
	return res
}

// ChunkSpec is the description of one chunk for the generator.
type ChunkSpec struct {
	Kind  ChunkKind
	Raw   []byte // payload of raw chunks
	Ops   []Op   // operations of LZMA chunks
	Props Props  // for kinds carrying properties
	// Force skips the format guards of operations (to build invalid streams).
	Force bool
	// ControlOverride, when non-zero, replaces the control byte's kind bits
	// (used to emit undefined control bytes).
	ControlOverride byte
	UseOverride     bool
}

// LZMA2Gen builds chunk sequences. It tracks the encoder-side model and
// window the way a correct decoder would see them.
type LZMA2Gen struct {
	Out   []byte
	Plain []byte // plaintext of everything emitted
	Win   *Window
	M     *Model
}

// NewLZMA2Gen returns an empty generator.
func NewLZMA2Gen() *LZMA2Gen { return &LZMA2Gen{Win: &Window{}} }

// Add emits one chunk and returns its plaintext.
func (g *LZMA2Gen) Add(c ChunkSpec) ([]byte, error) {
	switch c.Kind {
	case CEnd:
		g.Out = append(g.Out, 0)
		return nil, nil
	case CRawReset, CRaw:
		if len(c.Raw) < 1 || len(c.Raw) > 1<<16 {
			return nil, fmt.Errorf("raw chunk size %d", len(c.Raw))
		}
		ctl := byte(2)
		if c.Kind == CRawReset {
			ctl = 1
			g.Win.Buf = g.Win.Buf[:0]
		}
		if c.UseOverride {
			ctl = c.ControlOverride
		}
		n := len(c.Raw) - 1
		g.Out = append(g.Out, ctl, byte(n>>8), byte(n))
		g.Out = append(g.Out, c.Raw...)
		g.Win.Buf = append(g.Win.Buf, c.Raw...)
		g.Plain = append(g.Plain, c.Raw...)
		return c.Raw, nil
	}
	switch c.Kind {
	case CLZMAState:
		if g.M == nil {
			g.M = NewModel(c.Props)
		}
		g.M.Reset()
	case CLZMAProps, CLZMAFull:
		g.M = NewModel(c.Props)
		if c.Kind == CLZMAFull {
			g.Win.Buf = g.Win.Buf[:0]
		}
	case CLZMA:
		if g.M == nil {
			g.M = NewModel(c.Props)
		}
	}
	start := len(g.Win.Buf)
	e := NewEncoder(g.M, g.Win)
	for _, op := range c.Ops {
		if err := e.Put(op, c.Force); err != nil {
			return nil, err
		}
	}
	data := e.Finish()
	plain := append([]byte(nil), g.Win.Buf[start:]...)
	un := len(plain)
	if un < 1 || un > 1<<21 {
		return nil, fmt.Errorf("LZMA chunk uncompressed size %d", un)
	}
	if len(data) > 1<<16 {
		return nil, fmt.Errorf("LZMA chunk compressed size %d", len(data))
	}
	var ctl byte
	switch c.Kind {
	case CLZMA:
		ctl = 0x80
	case CLZMAState:
		ctl = 0xA0
	case CLZMAProps:
		ctl = 0xC0
	case CLZMAFull:
		ctl = 0xE0
	}
	ctl |= byte((un - 1) >> 16)
	g.Out = append(g.Out, ctl, byte((un-1)>>8), byte(un-1), byte((len(data)-1)>>8), byte(len(data)-1))
	if c.Kind == CLZMAProps || c.Kind == CLZMAFull {
		g.Out = append(g.Out, c.Props.Code())
	}
	g.Out = append(g.Out, data...)
	g.Plain = append(g.Plain, plain...)
	return plain, nil
}

// EncodeLZMA2Simple encodes data as a legal chunk sequence with the greedy op
// finder (chunks of at most chunkSize plaintext bytes) and the end chunk.
func EncodeLZMA2Simple(data []byte, p Props, chunkSize int) []byte {
	g := NewLZMA2Gen()
	first := true
	for len(data) > 0 {
		n := len(data)
		if n > chunkSize {
			n = chunkSize
		}
		full := append(append([]byte(nil), g.Win.Buf...), data[:n]...)
		ops := greedyFrom(full, len(g.Win.Buf), 1<<16)
		k := CLZMA
		if first {
			k = CLZMAFull
		}
		if _, err := g.Add(ChunkSpec{Kind: k, Ops: ops, Props: p}); err != nil {
			panic(err)
		}
		first = false
		data = data[n:]
	}
	g.Add(ChunkSpec{Kind: CEnd})
	return g.Out
}

// greedyFrom finds greedy ops for full[start:], matches may reach into full[:start].
func greedyFrom(full []byte, start, maxDist int) []Op {
	var ops []Op
	i := start
	for i < len(full) {
		best, bestD := 0, 0
		lo := i - maxDist
		if lo < 0 {
			lo = 0
		}
		for j := i - 1; j >= lo; j-- {
			n := 0
			for i+n < len(full) && n < 273 && full[j+n] == full[i+n] {
				n++
			}
			if n > best {
				best, bestD = n, i-j
				if n == 273 {
					break
				}
			}
		}
		if best >= 3 || (best == 2 && bestD < 128) {
			ops = append(ops, Op{Kind: OpMatch, Len: best, Dist: uint32(bestD)})
			i += best
		} else {
			ops = append(ops, Op{Kind: OpLit, Byte: full[i]})
			i++
		}
	}
	return ops
}
