package ref

import (
	"bytes"
	"crypto/sha256"
	"encoding/binary"
	"errors"
	"fmt"
	"hash/crc32"
	"hash/crc64"
)

// Check ids of the .xz format.
const (
	CheckNone   = 0
	CheckCRC32  = 1
	CheckCRC64  = 4
	CheckSHA256 = 10
)

var crc64Table = crc64.MakeTable(crc64.ECMA)

// CheckSize returns the size of the check field for a check id (per the
// format: ids 0; 1; 2-3; 4-6; 7-9; 10-12; 13-15 -> 0,4,4,8,16,32,64).
func CheckSize(id byte) int {
	switch {
	case id == 0:
		return 0
	case id <= 3:
		return 4
	case id <= 6:
		return 8
	case id <= 9:
		return 16
	case id <= 12:
		return 32
	}
	return 64
}

// CheckValue computes the check bytes over data.
func CheckValue(id byte, data []byte) []byte {
	switch id {
	case CheckNone:
		return nil
	case CheckCRC32:
		var b [4]byte
		binary.LittleEndian.PutUint32(b[:], crc32.ChecksumIEEE(data))
		return b[:]
	case CheckCRC64:
		var b [8]byte
		binary.LittleEndian.PutUint64(b[:], crc64.Checksum(data, crc64Table))
		return b[:]
	case CheckSHA256:
		s := sha256.Sum256(data)
		return s[:]
	}
	return make([]byte, CheckSize(id))
}

// DictSizeFromCode decodes the LZMA2 dictionary size byte (ok=false above 40).
func DictSizeFromCode(c byte) (uint32, bool) {
	if c > 40 {
		return 0, false
	}
	if c == 40 {
		return 0xFFFFFFFF, true
	}
	return (2 | uint32(c)&1) << (uint(c)/2 + 11), true
}

// Field is one entry of the field map of a parsed .xz file.
type Field struct {
	Name   string // e.g. "stream.header.magic", "block.header.size", ...
	Off    int
	Len    int
	Stream int
	Block  int // -1 when not inside a block
}

// BlockInfo describes one parsed block.
type BlockInfo struct {
	HeaderOff, HeaderLen int
	DataOff              int
	CompSize             int
	UncompSize           int
	PadLen               int
	CheckOff             int
	HasCompField         bool
	HasUncompField       bool
	DictCode             byte
	DictSize             uint32
	Chunks               []ChunkInfo
	MaxDist              uint32
}

// StreamInfo describes one parsed stream.
type StreamInfo struct {
	Off, Len  int
	Check     byte
	Blocks    []BlockInfo
	IndexOff  int
	IndexLen  int
	FooterOff int
}

// XZResult is the outcome of parsing + decoding a .xz file.
type XZResult struct {
	Out     []byte
	Streams []StreamInfo
	Fields  []Field
	Err     error
	// Consumed is the number of input bytes accepted before the error / the end.
	Consumed int
}

var xzMagic = []byte{0xFD, '7', 'z', 'X', 'Z', 0}

func uvarint(b []byte) (uint64, int) {
	var x uint64
	for i := 0; i < len(b) && i < 9; i++ {
		x |= uint64(b[i]&0x7F) << (7 * uint(i))
		if b[i]&0x80 == 0 {
			if b[i] == 0 && i != 0 {
				return 0, -1
			}
			return x, i + 1
		}
	}
	return 0, -1
}

func putUvarint(x uint64) []byte {
	var b []byte
	for x >= 0x80 {
		b = append(b, byte(x)|0x80)
		x >>= 7
	}
	return append(b, byte(x))
}

// XZOptions control the parser.
type XZOptions struct {
	SingleStream bool
	Record       bool
	// LenientVarint accepts multibyte integers that are not minimally encoded (a trailing 0x00
	// continuation byte). The format text rejects them; a decoder that accepts them still sees
	// the same values, so such a file is unusual but its metadata is not inconsistent.
	LenientVarint bool
}

// DecodeXZ parses and decodes a complete .xz file (possibly several streams
// with stream padding).
func DecodeXZ(in []byte, opt XZOptions) XZResult {
	var res XZResult
	uvarint := uvarint
	if opt.LenientVarint {
		uvarint = func(b []byte) (uint64, int) {
			var x uint64
			for i := 0; i < len(b) && i < 9; i++ {
				x |= uint64(b[i]&0x7F) << (7 * uint(i))
				if b[i]&0x80 == 0 {
					return x, i + 1
				}
			}
			return 0, -1
		}
	}
	pos := 0
	nStreams := 0
	fail := func(e error) XZResult {
		res.Err = e
		res.Consumed = pos
		return res
	}
	for {
		// stream padding
		if nStreams > 0 {
			if pos == len(in) {
				break
			}
			if opt.SingleStream {
				return fail(fmt.Errorf("%w: data after the single stream", ErrData))
			}
			ps := pos
			for pos < len(in) && in[pos] == 0 {
				pos++
			}
			if (pos-ps)%4 != 0 {
				if pos == len(in) {
					return fail(fmt.Errorf("%w: stream padding length %d not a multiple of four", ErrData, pos-ps))
				}
				return fail(fmt.Errorf("%w: stream padding not a multiple of four", ErrData))
			}
			if pos > ps {
				res.Fields = append(res.Fields, Field{"stream.padding", ps, pos - ps, nStreams - 1, -1})
			}
			if pos == len(in) {
				break
			}
		}
		si := StreamInfo{Off: pos}
		if len(in)-pos < 12 {
			if bytes.HasPrefix(xzMagic, in[pos:min(len(in), pos+6)]) || len(in)-pos < 6 {
				return fail(ErrTruncated)
			}
			return fail(fmt.Errorf("%w: bad magic", ErrData))
		}
		if !bytes.Equal(in[pos:pos+6], xzMagic) {
			return fail(fmt.Errorf("%w: bad header magic", ErrData))
		}
		if crc32.ChecksumIEEE(in[pos+6:pos+8]) != binary.LittleEndian.Uint32(in[pos+8:]) {
			return fail(fmt.Errorf("%w: stream header CRC", ErrData))
		}
		if in[pos+6] != 0 || in[pos+7]&0xF0 != 0 {
			return fail(fmt.Errorf("%w: reserved stream flags", ErrData))
		}
		si.Check = in[pos+7]
		switch si.Check {
		case CheckNone, CheckCRC32, CheckCRC64, CheckSHA256:
		default:
			return fail(fmt.Errorf("%w: unsupported check id %d", ErrUnsupported, si.Check))
		}
		res.Fields = append(res.Fields,
			Field{"stream.header.magic", pos, 6, nStreams, -1},
			Field{"stream.header.flags", pos + 6, 2, nStreams, -1},
			Field{"stream.header.crc", pos + 8, 4, nStreams, -1})
		pos += 12
		type rec struct{ unpadded, uncomp uint64 }
		var recs []rec
		// blocks
		for {
			if pos >= len(in) {
				return fail(ErrTruncated)
			}
			if in[pos] == 0 {
				break
			}
			bi := BlockInfo{HeaderOff: pos}
			hl := (int(in[pos]) + 1) * 4
			bi.HeaderLen = hl
			if pos+hl > len(in) {
				pos = len(in)
				return fail(ErrTruncated)
			}
			h := in[pos : pos+hl]
			if crc32.ChecksumIEEE(h[:hl-4]) != binary.LittleEndian.Uint32(h[hl-4:]) {
				return fail(fmt.Errorf("%w: block header CRC", ErrData))
			}
			flags := h[1]
			if flags&0x3C != 0 {
				return fail(fmt.Errorf("%w: reserved block flags", ErrData))
			}
			bn := len(si.Blocks)
			res.Fields = append(res.Fields, Field{"block.header.size", pos, 1, nStreams, bn}, Field{"block.header.flags", pos + 1, 1, nStreams, bn})
			p := 2
			declComp, declUncomp := int64(-1), int64(-1)
			if flags&0x40 != 0 {
				v, n := uvarint(h[p : hl-4])
				if n < 0 {
					return fail(fmt.Errorf("%w: compressed size field", ErrData))
				}
				if v == 0 {
					return fail(fmt.Errorf("%w: compressed size zero", ErrData))
				}
				res.Fields = append(res.Fields, Field{"block.header.compsize", pos + p, n, nStreams, bn})
				declComp = int64(v)
				bi.HasCompField = true
				p += n
			}
			if flags&0x80 != 0 {
				v, n := uvarint(h[p : hl-4])
				if n < 0 {
					return fail(fmt.Errorf("%w: uncompressed size field", ErrData))
				}
				res.Fields = append(res.Fields, Field{"block.header.uncompsize", pos + p, n, nStreams, bn})
				declUncomp = int64(v)
				bi.HasUncompField = true
				p += n
			}
			if flags&3 != 0 {
				return fail(fmt.Errorf("%w: more than one filter (only LZMA2-only streams are in scope)", ErrUnsupported))
			}
			if p+3 > hl-4 {
				return fail(fmt.Errorf("%w: block header too short for filter flags", ErrData))
			}
			if h[p] != 0x21 {
				return fail(fmt.Errorf("%w: filter id %#x", ErrUnsupported, h[p]))
			}
			if h[p+1] != 1 {
				return fail(fmt.Errorf("%w: LZMA2 filter property size %d", ErrData, h[p+1]))
			}
			ds, ok := DictSizeFromCode(h[p+2])
			if !ok {
				return fail(fmt.Errorf("%w: dictionary size code %d", ErrData, h[p+2]))
			}
			bi.DictCode, bi.DictSize = h[p+2], ds
			res.Fields = append(res.Fields, Field{"block.header.filterid", pos + p, 1, nStreams, bn},
				Field{"block.header.propsize", pos + p + 1, 1, nStreams, bn},
				Field{"block.header.dictcode", pos + p + 2, 1, nStreams, bn})
			p += 3
			if p < hl-4 {
				res.Fields = append(res.Fields, Field{"block.header.padding", pos + p, hl - 4 - p, nStreams, bn})
			}
			for _, b := range h[p : hl-4] {
				if b != 0 {
					return fail(fmt.Errorf("%w: non-zero block header padding", ErrData))
				}
			}
			res.Fields = append(res.Fields, Field{"block.header.crc", pos + hl - 4, 4, nStreams, bn})
			pos += hl
			bi.DataOff = pos
			lim := in[pos:]
			if declComp >= 0 && declComp < int64(len(lim)) {
				lim = lim[:declComp]
			}
			lr := DecodeLZMA2(lim, ds, opt.Record)
			res.Out = append(res.Out, lr.Out...)
			if lr.Err != nil {
				pos += lr.Consumed
				if lr.Err == ErrTruncated && declComp >= 0 && declComp < int64(len(in)-bi.DataOff) {
					return fail(fmt.Errorf("%w: LZMA2 data exceeds declared compressed size", ErrData))
				}
				return fail(lr.Err)
			}
			bi.CompSize = lr.Consumed
			bi.UncompSize = len(lr.Out)
			bi.Chunks = lr.Chunks
			for _, c := range lr.Chunks {
				if c.MaxDist > bi.MaxDist {
					bi.MaxDist = c.MaxDist
				}
			}
			if declComp >= 0 && declComp != int64(lr.Consumed) {
				return fail(fmt.Errorf("%w: compressed size %d, header says %d", ErrData, lr.Consumed, declComp))
			}
			if declUncomp >= 0 && declUncomp != int64(len(lr.Out)) {
				return fail(fmt.Errorf("%w: uncompressed size %d, header says %d", ErrData, len(lr.Out), declUncomp))
			}
			res.Fields = append(res.Fields, Field{"block.data", pos, lr.Consumed, nStreams, bn})
			pos += lr.Consumed
			bi.PadLen = (4 - lr.Consumed%4) % 4
			cs := CheckSize(si.Check)
			if pos+bi.PadLen+cs > len(in) {
				pos = len(in)
				return fail(ErrTruncated)
			}
			if bi.PadLen > 0 {
				res.Fields = append(res.Fields, Field{"block.padding", pos, bi.PadLen, nStreams, bn})
			}
			for _, b := range in[pos : pos+bi.PadLen] {
				if b != 0 {
					return fail(fmt.Errorf("%w: non-zero block padding", ErrData))
				}
			}
			pos += bi.PadLen
			bi.CheckOff = pos
			if cs > 0 {
				res.Fields = append(res.Fields, Field{"block.check", pos, cs, nStreams, bn})
				if !bytes.Equal(in[pos:pos+cs], CheckValue(si.Check, lr.Out)) {
					return fail(fmt.Errorf("%w: check mismatch", ErrData))
				}
			}
			pos += cs
			recs = append(recs, rec{uint64(hl + lr.Consumed + cs), uint64(len(lr.Out))})
			si.Blocks = append(si.Blocks, bi)
		}
		// index
		si.IndexOff = pos
		ip := pos + 1
		res.Fields = append(res.Fields, Field{"index.indicator", pos, 1, nStreams, -1})
		need := func(n int) bool { return ip+n <= len(in) }
		rd := func(name string, blk int) (uint64, error) {
			end := ip + 9
			if end > len(in) {
				end = len(in)
			}
			v, n := uvarint(in[ip:end])
			if n < 0 {
				if end == len(in) && len(in)-ip < 9 {
					// could be truncated in the middle of a varint
					allCont := true
					for _, b := range in[ip:end] {
						if b&0x80 == 0 {
							allCont = false
						}
					}
					if allCont {
						return 0, ErrTruncated
					}
				}
				return 0, fmt.Errorf("%w: index varint", ErrData)
			}
			res.Fields = append(res.Fields, Field{name, ip, n, nStreams, blk})
			ip += n
			return v, nil
		}
		cnt, err := rd("index.count", -1)
		if err != nil {
			pos = ip
			return fail(err)
		}
		if cnt != uint64(len(recs)) {
			return fail(fmt.Errorf("%w: index has %d records, stream has %d blocks", ErrData, cnt, len(recs)))
		}
		for i := range recs {
			u, err := rd("index.unpadded", i)
			if err != nil {
				pos = ip
				return fail(err)
			}
			v, err := rd("index.uncompressed", i)
			if err != nil {
				pos = ip
				return fail(err)
			}
			if u != recs[i].unpadded || v != recs[i].uncomp {
				return fail(fmt.Errorf("%w: index record %d = (%d,%d), block is (%d,%d)", ErrData, i, u, v, recs[i].unpadded, recs[i].uncomp))
			}
		}
		ipad := (4 - (ip-pos)%4) % 4
		if !need(ipad + 4) {
			pos = len(in)
			return fail(ErrTruncated)
		}
		if ipad > 0 {
			res.Fields = append(res.Fields, Field{"index.padding", ip, ipad, nStreams, -1})
		}
		for _, b := range in[ip : ip+ipad] {
			if b != 0 {
				return fail(fmt.Errorf("%w: non-zero index padding", ErrData))
			}
		}
		ip += ipad
		if crc32.ChecksumIEEE(in[pos:ip]) != binary.LittleEndian.Uint32(in[ip:]) {
			return fail(fmt.Errorf("%w: index CRC", ErrData))
		}
		res.Fields = append(res.Fields, Field{"index.crc", ip, 4, nStreams, -1})
		ip += 4
		si.IndexLen = ip - pos
		pos = ip
		// footer
		if pos+12 > len(in) {
			pos = len(in)
			return fail(ErrTruncated)
		}
		f := in[pos : pos+12]
		si.FooterOff = pos
		if f[10] != 'Y' || f[11] != 'Z' {
			return fail(fmt.Errorf("%w: footer magic", ErrData))
		}
		if crc32.ChecksumIEEE(f[4:10]) != binary.LittleEndian.Uint32(f[:4]) {
			return fail(fmt.Errorf("%w: footer CRC", ErrData))
		}
		if (int(binary.LittleEndian.Uint32(f[4:8]))+1)*4 != si.IndexLen {
			return fail(fmt.Errorf("%w: backward size", ErrData))
		}
		if f[8] != 0 || f[9] != si.Check {
			return fail(fmt.Errorf("%w: footer stream flags differ from header", ErrData))
		}
		res.Fields = append(res.Fields, Field{"footer.crc", pos, 4, nStreams, -1}, Field{"footer.backward", pos + 4, 4, nStreams, -1},
			Field{"footer.flags", pos + 8, 2, nStreams, -1}, Field{"footer.magic", pos + 10, 2, nStreams, -1})
		pos += 12
		si.Len = pos - si.Off
		res.Streams = append(res.Streams, si)
		nStreams++
	}
	res.Consumed = pos
	return res
}

// ErrUnsupported marks features outside the LZMA2-only scope.
var ErrUnsupported = errors.New("ref: unsupported")

func min(a, b int) int {
	if a < b {
		return a
	}
	return b
}

// XZBlockSpec describes one block for the container writer.
type XZBlockSpec struct {
	LZMA2       []byte // complete chunk sequence incl. end chunk
	Plain       []byte
	DictCode    byte
	CompField   bool
	UncompField bool
	ExtraPad    int // additional block header padding in units of 4 bytes
}

// EncodeXZStream writes one .xz stream.
func EncodeXZStream(check byte, blocks []XZBlockSpec) []byte {
	var out []byte
	out = append(out, xzMagic...)
	out = append(out, 0, check)
	out = binary.LittleEndian.AppendUint32(out, crc32.ChecksumIEEE(out[6:8]))
	type rec struct{ unpadded, uncomp uint64 }
	var recs []rec
	for _, b := range blocks {
		var h []byte
		h = append(h, 0, 0)
		if b.CompField {
			h[1] |= 0x40
			h = append(h, putUvarint(uint64(len(b.LZMA2)))...)
		}
		if b.UncompField {
			h[1] |= 0x80
			h = append(h, putUvarint(uint64(len(b.Plain)))...)
		}
		h = append(h, 0x21, 1, b.DictCode)
		for len(h)%4 != 0 {
			h = append(h, 0)
		}
		for i := 0; i < b.ExtraPad*4; i++ {
			h = append(h, 0)
		}
		h[0] = byte((len(h)+4)/4 - 1)
		h = binary.LittleEndian.AppendUint32(h, crc32.ChecksumIEEE(h))
		out = append(out, h...)
		out = append(out, b.LZMA2...)
		for i := 0; i < (4-len(b.LZMA2)%4)%4; i++ {
			out = append(out, 0)
		}
		cv := CheckValue(check, b.Plain)
		out = append(out, cv...)
		recs = append(recs, rec{uint64(len(h) + len(b.LZMA2) + len(cv)), uint64(len(b.Plain))})
	}
	is := len(out)
	out = append(out, 0)
	out = append(out, putUvarint(uint64(len(recs)))...)
	for _, r := range recs {
		out = append(out, putUvarint(r.unpadded)...)
		out = append(out, putUvarint(r.uncomp)...)
	}
	for (len(out)-is)%4 != 0 {
		out = append(out, 0)
	}
	out = binary.LittleEndian.AppendUint32(out, crc32.ChecksumIEEE(out[is:]))
	il := len(out) - is
	var f [12]byte
	binary.LittleEndian.PutUint32(f[4:], uint32(il/4-1))
	f[8], f[9], f[10], f[11] = 0, check, 'Y', 'Z'
	binary.LittleEndian.PutUint32(f[0:], crc32.ChecksumIEEE(f[4:10]))
	return append(out, f[:]...)
}

// AloneHeader is the parsed 13-byte .lzma header.
type AloneHeader struct {
	Props    Props
	DictSize uint32
	Size     int64 // -1 unknown
}

// AloneResult is the outcome of decoding a .lzma file.
type AloneResult struct {
	Header   AloneHeader
	Out      []byte
	Marker   bool
	MaxDist  uint32
	Ops      []Op
	States   []int
	Err      error
	Trailing int
}

// DecodeAlone decodes a classic .lzma file.
func DecodeAlone(in []byte, record bool) AloneResult {
	var res AloneResult
	if len(in) < 13 {
		res.Err = ErrTruncated
		return res
	}
	p, ok := PropsFromCode(in[0])
	if !ok {
		res.Err = fmt.Errorf("%w: properties byte %d", ErrData, in[0])
		return res
	}
	res.Header.Props = p
	res.Header.DictSize = binary.LittleEndian.Uint32(in[1:5])
	s := binary.LittleEndian.Uint64(in[5:13])
	if s == ^uint64(0) {
		res.Header.Size = -1
	} else {
		res.Header.Size = int64(s)
	}
	ds := res.Header.DictSize
	if ds < 4096 {
		ds = 4096
	}
	m := NewModel(p)
	win := &Window{}
	if res.Header.Size == 0 {
		// nothing to decode; an (optional) marker-only stream may follow
		if len(in) == 13 {
			return res
		}
	}
	dr := DecodeRaw(in[13:], m, win, ds, res.Header.Size, true, record)
	res.Out = dr.Out
	res.Marker = dr.Marker
	res.MaxDist = dr.MaxDist
	res.Ops, res.States = dr.Ops, dr.StatesIn
	res.Err = dr.Err
	if dr.Err == nil {
		res.Trailing = len(in) - 13 - dr.Consumed
	}
	return res
}

// EncodeAlone writes a .lzma file from ops. size<0: unknown size in the header;
// marker: append the end marker.
func EncodeAlone(p Props, dictSize uint32, ops []Op, sizeKnown, marker bool) ([]byte, []byte, error) {
	m := NewModel(p)
	win := &Window{}
	e := NewEncoder(m, win)
	for _, op := range ops {
		if err := e.Put(op, false); err != nil {
			return nil, nil, err
		}
	}
	if marker {
		e.Put(Op{Kind: OpEOS}, false)
	}
	data := e.Finish()
	h := make([]byte, 13)
	h[0] = p.Code()
	binary.LittleEndian.PutUint32(h[1:], dictSize)
	if sizeKnown {
		binary.LittleEndian.PutUint64(h[5:], uint64(len(win.Buf)))
	} else {
		binary.LittleEndian.PutUint64(h[5:], ^uint64(0))
	}
	return append(h, data...), win.Buf, nil
}
