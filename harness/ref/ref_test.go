package ref

import (
	"bytes"
	"testing"
)

func TestCorpus(t *testing.T) {
	es, err := LoadCorpus("/verif/corpus")
	if err != nil {
		t.Fatal(err)
	}
	t.Logf("%d corpus files decoded", len(es))
}

func TestSelf(t *testing.T) {
	ops := []Op{{Kind: OpLit, Byte: 'a'}, {Kind: OpLit, Byte: 'b'}, {Kind: OpMatch, Len: 5, Dist: 2}, {Kind: OpShortRep}, {Kind: OpLit, Byte: 0},
		{Kind: OpMatch, Len: 273, Dist: 1}, {Kind: OpRep1, Len: 3}, {Kind: OpRep2, Len: 2}, {Kind: OpRep3, Len: 9}, {Kind: OpRep0, Len: 18}, {Kind: OpLit, Byte: 0xff}}
	for c := 0; c < 225; c++ {
		p, _ := PropsFromCode(byte(c))
		if err := SelfRoundTrip(p, ops); err != nil {
			t.Fatalf("props %v: %v", p, err)
		}
	}
	data := bytes.Repeat([]byte("hello world, hello xz. "), 300)
	l2 := EncodeLZMA2Simple(data, Props{3, 0, 2}, 1000)
	r := DecodeLZMA2(l2, 65536, false)
	if r.Err != nil || !bytes.Equal(r.Out, data) {
		t.Fatal(r.Err)
	}
	x := EncodeXZStream(CheckCRC64, []XZBlockSpec{{LZMA2: l2, Plain: data, DictCode: 8, CompField: true, UncompField: true}})
	xr := DecodeXZ(x, XZOptions{})
	if xr.Err != nil || !bytes.Equal(xr.Out, data) {
		t.Fatal(xr.Err)
	}
}
