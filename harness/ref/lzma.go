// Package ref is the independent reference model: LZMA, LZMA2, .xz and .lzma
// decoders written from the format descriptions (Pavlov's LZMA specification,
// the .xz file format 1.0.4), plus an encoder that emits exactly the operation
// list it is given. It shares no code with the repository under test.
package ref

import (
	"errors"
	"fmt"
)

const (
	nStates    = 12
	posBitsMax = 4
	probInit   = 1024
)

// Props are the lc/lp/pb parameters.
type Props struct{ LC, LP, PB int }

// Code returns the properties byte.
func (p Props) Code() byte { return byte((p.PB*5+p.LP)*9 + p.LC) }

// PropsFromCode decodes a properties byte (ok=false above 224).
func PropsFromCode(c byte) (Props, bool) {
	if c > 224 {
		return Props{}, false
	}
	var p Props
	p.LC = int(c % 9)
	c /= 9
	p.LP = int(c % 5)
	p.PB = int(c / 5)
	return p, true
}

type lenModel struct {
	choice, choice2 uint16
	low             [16][8]uint16
	mid             [16][8]uint16
	high            [256]uint16
}

func (l *lenModel) init() {
	l.choice, l.choice2 = probInit, probInit
	for i := range l.low {
		for j := range l.low[i] {
			l.low[i][j] = probInit
			l.mid[i][j] = probInit
		}
	}
	for i := range l.high {
		l.high[i] = probInit
	}
}

// Model is the adaptive probability model plus coder state of one LZMA stream.
type Model struct {
	P       Props
	isMatch [nStates << posBitsMax]uint16
	isRep   [nStates]uint16
	isRepG0 [nStates]uint16
	isRepG1 [nStates]uint16
	isRepG2 [nStates]uint16
	isRep0L [nStates << posBitsMax]uint16
	posSlot [4][64]uint16
	posDec  [115]uint16
	align   [16]uint16
	lenM    lenModel
	repLenM lenModel
	lit     []uint16
	State   int
	Rep     [4]uint32
}

// NewModel returns a freshly reset model.
func NewModel(p Props) *Model {
	m := &Model{P: p}
	m.Reset()
	return m
}

// Reset puts probabilities, state and reps back to their initial values.
func (m *Model) Reset() {
	fill := func(s []uint16) {
		for i := range s {
			s[i] = probInit
		}
	}
	fill(m.isMatch[:])
	fill(m.isRep[:])
	fill(m.isRepG0[:])
	fill(m.isRepG1[:])
	fill(m.isRepG2[:])
	fill(m.isRep0L[:])
	for i := range m.posSlot {
		fill(m.posSlot[i][:])
	}
	fill(m.posDec[:])
	fill(m.align[:])
	m.lenM.init()
	m.repLenM.init()
	m.lit = make([]uint16, 0x300<<uint(m.P.LC+m.P.LP))
	fill(m.lit)
	m.State = 0
	m.Rep = [4]uint32{}
}

func stLit(s int) int {
	if s < 4 {
		return 0
	}
	if s < 10 {
		return s - 3
	}
	return s - 6
}
func stMatch(s int) int {
	if s < 7 {
		return 7
	}
	return 10
}
func stRep(s int) int {
	if s < 7 {
		return 8
	}
	return 11
}
func stShortRep(s int) int {
	if s < 7 {
		return 9
	}
	return 11
}

// ---- range decoder ----

type rdec struct {
	in        []byte
	pos       int
	rng, code uint32
	short     bool // tried to read past the input
}

func (d *rdec) rb() uint32 {
	if d.pos >= len(d.in) {
		d.short = true
		d.pos++
		return 0
	}
	b := d.in[d.pos]
	d.pos++
	return uint32(b)
}

func (d *rdec) init() error {
	if len(d.in) < 5 {
		d.short = true
		return ErrTruncated
	}
	if d.in[0] != 0 {
		return errors.New("ref: range coder: first byte not zero")
	}
	d.rng = 0xFFFFFFFF
	d.code = 0
	d.pos = 1
	for i := 0; i < 4; i++ {
		d.code = d.code<<8 | d.rb()
	}
	if d.code == d.rng {
		return errors.New("ref: range coder: corrupted init")
	}
	return nil
}

func (d *rdec) norm() {
	if d.rng < 1<<24 {
		d.rng <<= 8
		d.code = d.code<<8 | d.rb()
	}
}

func (d *rdec) bit(p *uint16) uint32 {
	bound := (d.rng >> 11) * uint32(*p)
	var b uint32
	if d.code < bound {
		*p += (2048 - *p) >> 5
		d.rng = bound
	} else {
		*p -= *p >> 5
		d.code -= bound
		d.rng -= bound
		b = 1
	}
	d.norm()
	return b
}

func (d *rdec) direct(n int) uint32 {
	var res uint32
	for ; n > 0; n-- {
		d.rng >>= 1
		d.code -= d.rng
		t := 0 - (d.code >> 31)
		d.code += d.rng & t
		d.norm()
		res = res<<1 + t + 1
	}
	return res
}

func (d *rdec) tree(probs []uint16, bits int) uint32 {
	m := uint32(1)
	for i := 0; i < bits; i++ {
		m = m<<1 + d.bit(&probs[m])
	}
	return m - 1<<uint(bits)
}

func (d *rdec) rtree(probs []uint16, bits int) uint32 {
	m := uint32(1)
	var sym uint32
	for i := 0; i < bits; i++ {
		b := d.bit(&probs[m])
		m = m<<1 + b
		sym |= b << uint(i)
	}
	return sym
}

func (d *rdec) length(l *lenModel, posState int) int {
	if d.bit(&l.choice) == 0 {
		return int(d.tree(l.low[posState][:], 3))
	}
	if d.bit(&l.choice2) == 0 {
		return 8 + int(d.tree(l.mid[posState][:], 3))
	}
	return 16 + int(d.tree(l.high[:], 8))
}

// OpKind enumerates the LZMA operations.
type OpKind int

const (
	OpLit OpKind = iota
	OpMatch
	OpShortRep
	OpRep0
	OpRep1
	OpRep2
	OpRep3
	OpEOS
)

var opNames = [...]string{"lit", "match", "shortrep", "rep0", "rep1", "rep2", "rep3", "eos"}

func (k OpKind) String() string { return opNames[k] }

// Op is one LZMA operation. Dist is the real distance (>= 1) for matches.
type Op struct {
	Kind OpKind
	Byte byte
	Len  int
	Dist uint32
}

func (o Op) String() string {
	switch o.Kind {
	case OpLit:
		return fmt.Sprintf("lit(%#02x)", o.Byte)
	case OpMatch:
		return fmt.Sprintf("match(len=%d,dist=%d)", o.Len, o.Dist)
	case OpShortRep:
		return "shortrep"
	case OpEOS:
		return "eos"
	}
	return fmt.Sprintf("%s(len=%d)", o.Kind, o.Len)
}

// Errors of the reference decoders.
var (
	ErrTruncated = errors.New("ref: input truncated")
	ErrData      = errors.New("ref: data error")
)

// Window is the plain (non-ring) output window: all bytes since the last
// dictionary reset.
type Window struct {
	Buf []byte // everything produced since the dictionary reset
}

// DecodeResult reports how a raw LZMA decode went.
type DecodeResult struct {
	Out      []byte
	Ops      []Op
	StatesIn []int // coder state before each op
	MaxDist  uint32
	Marker   bool // terminated by the end marker
	Consumed int  // input bytes consumed by the range decoder
	CodeZero bool // range decoder code == 0 at the end
	Err      error
}

// DecodeRaw decodes a raw LZMA stream. win holds the dictionary content that
// precedes the stream (LZMA2 chunks without dictionary reset); the output is
// appended to it. size < 0 means unknown (end marker required). dictSize is
// the declared dictionary size (distances beyond it are errors). If
// allowMarker is false an end marker is an error (LZMA2).
func DecodeRaw(in []byte, m *Model, win *Window, dictSize uint32, size int64, allowMarker bool, record bool) DecodeResult {
	var res DecodeResult
	d := &rdec{in: in}
	if err := d.init(); err != nil {
		res.Err = err
		return res
	}
	start := len(win.Buf)
	lc, lp, pb := uint(m.P.LC), uint(m.P.LP), uint(m.P.PB)
	remaining := size
	fail := func(e error) DecodeResult {
		res.Out = win.Buf[start:]
		res.Consumed = d.pos
		if d.short {
			res.Err = ErrTruncated
		} else {
			res.Err = e
		}
		return res
	}
	for {
		if d.short {
			return fail(ErrTruncated)
		}
		if size >= 0 && remaining == 0 {
			if d.code == 0 {
				break
			}
			if !allowMarker {
				return fail(fmt.Errorf("%w: range coder not finished at declared size", ErrData))
			}
		}
		total := len(win.Buf)
		posState := total & (1<<pb - 1)
		st := m.State
		if d.bit(&m.isMatch[st<<posBitsMax+posState]) == 0 {
			if size >= 0 && remaining == 0 {
				return fail(fmt.Errorf("%w: literal beyond declared size", ErrData))
			}
			var prev byte
			if total > 0 {
				prev = win.Buf[total-1]
			}
			litState := (total&(1<<lp-1))<<lc + int(prev>>(8-lc))
			probs := m.lit[0x300*litState : 0x300*litState+0x300]
			sym := uint32(1)
			if st >= 7 {
				var mb uint32
				if int(m.Rep[0])+1 <= total {
					mb = uint32(win.Buf[total-int(m.Rep[0])-1])
				}
				for {
					matchBit := (mb >> 7) & 1
					mb <<= 1
					b := d.bit(&probs[(1+matchBit)<<8+sym])
					sym = sym<<1 | b
					if matchBit != b || sym >= 0x100 {
						break
					}
				}
			}
			for sym < 0x100 {
				sym = sym<<1 | d.bit(&probs[sym])
			}
			if d.short {
				return fail(ErrTruncated)
			}
			win.Buf = append(win.Buf, byte(sym))
			if record {
				res.Ops = append(res.Ops, Op{Kind: OpLit, Byte: byte(sym)})
				res.StatesIn = append(res.StatesIn, st)
			}
			m.State = stLit(st)
			remaining--
			continue
		}
		var n int
		var kind OpKind
		if d.bit(&m.isRep[st]) != 0 {
			if size >= 0 && remaining == 0 {
				return fail(fmt.Errorf("%w: rep beyond declared size", ErrData))
			}
			if total == 0 {
				return fail(fmt.Errorf("%w: rep match with empty window", ErrData))
			}
			if d.bit(&m.isRepG0[st]) == 0 {
				if d.bit(&m.isRep0L[st<<posBitsMax+posState]) == 0 {
					if d.short {
						return fail(ErrTruncated)
					}
					if int(m.Rep[0])+1 > total || m.Rep[0] >= dictSize {
						return fail(fmt.Errorf("%w: short rep distance beyond window", ErrData))
					}
					m.State = stShortRep(st)
					win.Buf = append(win.Buf, win.Buf[total-int(m.Rep[0])-1])
					if record {
						res.Ops = append(res.Ops, Op{Kind: OpShortRep, Len: 1, Dist: m.Rep[0] + 1})
						res.StatesIn = append(res.StatesIn, st)
					}
					if m.Rep[0]+1 > res.MaxDist {
						res.MaxDist = m.Rep[0] + 1
					}
					remaining--
					continue
				}
				kind = OpRep0
			} else {
				var dist uint32
				if d.bit(&m.isRepG1[st]) == 0 {
					dist = m.Rep[1]
					kind = OpRep1
				} else {
					if d.bit(&m.isRepG2[st]) == 0 {
						dist = m.Rep[2]
						kind = OpRep2
					} else {
						dist = m.Rep[3]
						m.Rep[3] = m.Rep[2]
						kind = OpRep3
					}
					m.Rep[2] = m.Rep[1]
				}
				m.Rep[1] = m.Rep[0]
				m.Rep[0] = dist
			}
			n = d.length(&m.repLenM, posState)
			m.State = stRep(st)
		} else {
			m.Rep[3], m.Rep[2], m.Rep[1] = m.Rep[2], m.Rep[1], m.Rep[0]
			n = d.length(&m.lenM, posState)
			m.State = stMatch(st)
			ls := n
			if ls > 3 {
				ls = 3
			}
			slot := d.tree(m.posSlot[ls][:], 6)
			var dist uint32
			if slot < 4 {
				dist = slot
			} else {
				nb := int(slot>>1) - 1
				dist = (2 | slot&1) << uint(nb)
				if slot < 14 {
					dist += d.rtree(m.posDec[dist-slot:], nb)
				} else {
					dist += d.direct(nb-4) << 4
					dist += d.rtree(m.align[:], 4)
				}
			}
			m.Rep[0] = dist
			kind = OpMatch
			if dist == 0xFFFFFFFF {
				if d.short {
					return fail(ErrTruncated)
				}
				if !allowMarker {
					return fail(fmt.Errorf("%w: end marker not allowed here", ErrData))
				}
				if d.code != 0 {
					return fail(fmt.Errorf("%w: range coder not finished at end marker", ErrData))
				}
				if size >= 0 && remaining != 0 {
					return fail(fmt.Errorf("%w: end marker before declared size", ErrData))
				}
				res.Marker = true
				if record {
					res.Ops = append(res.Ops, Op{Kind: OpEOS})
					res.StatesIn = append(res.StatesIn, st)
				}
				break
			}
			if size >= 0 && remaining == 0 {
				return fail(fmt.Errorf("%w: match beyond declared size", ErrData))
			}
		}
		if d.short {
			return fail(ErrTruncated)
		}
		n += 2
		dist := m.Rep[0]
		if dist >= dictSize || int(dist)+1 > total {
			return fail(fmt.Errorf("%w: distance %d beyond window %d / dictionary %d", ErrData, dist+1, total, dictSize))
		}
		if size >= 0 && int64(n) > remaining {
			return fail(fmt.Errorf("%w: match overruns declared size", ErrData))
		}
		if dist+1 > res.MaxDist {
			res.MaxDist = dist + 1
		}
		for i := 0; i < n; i++ {
			win.Buf = append(win.Buf, win.Buf[len(win.Buf)-int(dist)-1])
		}
		if record {
			res.Ops = append(res.Ops, Op{Kind: kind, Len: n, Dist: dist + 1})
			res.StatesIn = append(res.StatesIn, st)
		}
		remaining -= int64(n)
	}
	res.Out = win.Buf[start:]
	res.Consumed = d.pos
	res.CodeZero = d.code == 0
	if d.short {
		res.Err = ErrTruncated
	}
	return res
}
