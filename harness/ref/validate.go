package ref

import (
	"bytes"
	"crypto/sha256"
	"encoding/hex"
	"encoding/json"
	"fmt"
	"os"
	"path/filepath"
	"strings"
)

// CorpusEntry is one file of the frozen liblzma corpus.
type CorpusEntry struct {
	File   string `json:"file"`
	Kind   string `json:"kind"`
	SHA256 string `json:"sha256"`
	Len    int    `json:"len"`
	Data   []byte `json:"-"`
	Plain  []byte `json:"-"`
}

// LoadCorpus reads the corpus and decodes every file with the reference
// decoders; a mismatch with the recorded SHA-256 is a reference-model bug.
func LoadCorpus(dir string) ([]CorpusEntry, error) {
	b, err := os.ReadFile(filepath.Join(dir, "MANIFEST.json"))
	if err != nil {
		return nil, err
	}
	var es []CorpusEntry
	if err := json.Unmarshal(b, &es); err != nil {
		return nil, err
	}
	for i := range es {
		e := &es[i]
		e.Data, err = os.ReadFile(filepath.Join(dir, e.File))
		if err != nil {
			return nil, err
		}
		var out []byte
		var derr error
		switch {
		case e.Kind == "xz":
			r := DecodeXZ(e.Data, XZOptions{})
			out, derr = r.Out, r.Err
		case e.Kind == "lzma":
			r := DecodeAlone(e.Data, false)
			out, derr = r.Out, r.Err
		case strings.HasPrefix(e.Kind, "lzma2:"):
			var ds uint32
			fmt.Sscanf(e.Kind, "lzma2:%d", &ds)
			// python's FORMAT_RAW emits the chunk sequence including the end chunk
			r := DecodeLZMA2(e.Data, ds, false)
			out, derr = r.Out, r.Err
		}
		if derr != nil {
			return nil, fmt.Errorf("reference decoder rejects corpus file %s: %v", e.File, derr)
		}
		s := sha256.Sum256(out)
		if hex.EncodeToString(s[:]) != e.SHA256 || len(out) != e.Len {
			return nil, fmt.Errorf("reference decoder output differs for corpus file %s", e.File)
		}
		e.Plain = out
	}
	return es, nil
}

// SelfRoundTrip encodes ops with the reference encoder in all container forms
// and decodes them again; returns an error on any disagreement.
func SelfRoundTrip(p Props, ops []Op) error {
	for mode := 0; mode < 3; mode++ {
		enc, plain, err := EncodeAlone(p, 1<<16, ops, mode != 0, mode != 1)
		if err != nil {
			return err
		}
		r := DecodeAlone(enc, true)
		if r.Err != nil || !bytes.Equal(r.Out, plain) {
			return fmt.Errorf("alone mode %d: %v", mode, r.Err)
		}
		if r.Marker != (mode != 1) {
			return fmt.Errorf("alone mode %d: marker=%v", mode, r.Marker)
		}
		n := len(r.Ops)
		if r.Marker {
			n--
		}
		if n != len(ops) {
			return fmt.Errorf("alone mode %d: %d ops decoded, %d encoded", mode, n, len(ops))
		}
		for i := range ops {
			a, b := ops[i], r.Ops[i]
			if a.Kind != b.Kind || (a.Kind == OpLit && a.Byte != b.Byte) || (a.Kind != OpLit && a.Kind != OpShortRep && a.Len != b.Len) || (a.Kind == OpMatch && a.Dist != b.Dist) {
				return fmt.Errorf("op %d: encoded %v decoded %v", i, a, b)
			}
		}
	}
	return nil
}
