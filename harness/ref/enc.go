package ref

import "fmt"

// ---- range encoder ----

type renc struct {
	out       []byte
	low       uint64
	rng       uint32
	cache     byte
	cacheSize int64
}

func newRenc() *renc { return &renc{rng: 0xFFFFFFFF, cacheSize: 1} }

func (e *renc) shiftLow() {
	if uint32(e.low) < 0xFF000000 || e.low>>32 != 0 {
		carry := byte(e.low >> 32)
		t := e.cache
		for {
			e.out = append(e.out, t+carry)
			t = 0xFF
			e.cacheSize--
			if e.cacheSize == 0 {
				break
			}
		}
		e.cache = byte(uint32(e.low) >> 24)
	}
	e.cacheSize++
	e.low = uint64(uint32(e.low) << 8)
}

func (e *renc) bit(p *uint16, b uint32) {
	bound := (e.rng >> 11) * uint32(*p)
	if b == 0 {
		e.rng = bound
		*p += (2048 - *p) >> 5
	} else {
		e.low += uint64(bound)
		e.rng -= bound
		*p -= *p >> 5
	}
	for e.rng < 1<<24 {
		e.rng <<= 8
		e.shiftLow()
	}
}

func (e *renc) direct(v uint32, n int) {
	for i := n - 1; i >= 0; i-- {
		e.rng >>= 1
		if (v>>uint(i))&1 == 1 {
			e.low += uint64(e.rng)
		}
		for e.rng < 1<<24 {
			e.rng <<= 8
			e.shiftLow()
		}
	}
}

func (e *renc) flush() {
	for i := 0; i < 5; i++ {
		e.shiftLow()
	}
}

func (e *renc) tree(probs []uint16, bits int, v uint32) {
	m := uint32(1)
	for i := bits - 1; i >= 0; i-- {
		b := (v >> uint(i)) & 1
		e.bit(&probs[m], b)
		m = m<<1 | b
	}
}

func (e *renc) rtree(probs []uint16, bits int, v uint32) {
	m := uint32(1)
	for i := 0; i < bits; i++ {
		b := (v >> uint(i)) & 1
		e.bit(&probs[m], b)
		m = m<<1 | b
	}
}

func (e *renc) length(l *lenModel, posState int, n int) {
	switch {
	case n < 8:
		e.bit(&l.choice, 0)
		e.tree(l.low[posState][:], 3, uint32(n))
	case n < 16:
		e.bit(&l.choice, 1)
		e.bit(&l.choice2, 0)
		e.tree(l.mid[posState][:], 3, uint32(n-8))
	default:
		e.bit(&l.choice, 1)
		e.bit(&l.choice2, 1)
		e.tree(l.high[:], 8, uint32(n-16))
	}
}

// Encoder emits exactly the operations it is given.
type Encoder struct {
	M   *Model
	Win *Window
	rc  *renc
}

// NewEncoder starts a raw LZMA stream on the given model and window.
func NewEncoder(m *Model, win *Window) *Encoder {
	return &Encoder{M: m, Win: win, rc: newRenc()}
}

// Legal reports whether op may be applied in the current state (format guards).
func (e *Encoder) Legal(op Op) error {
	total := len(e.Win.Buf)
	m := e.M
	need := func(d uint32) error {
		if int(d) > total || d < 1 {
			return fmt.Errorf("distance %d beyond window %d", d, total)
		}
		return nil
	}
	switch op.Kind {
	case OpLit, OpEOS:
		return nil
	case OpMatch:
		if op.Len < 2 || op.Len > 273 {
			return fmt.Errorf("length %d", op.Len)
		}
		return need(op.Dist)
	case OpShortRep:
		if total == 0 {
			return fmt.Errorf("empty window")
		}
		return need(m.Rep[0] + 1)
	case OpRep0, OpRep1, OpRep2, OpRep3:
		if total == 0 {
			return fmt.Errorf("empty window")
		}
		if op.Len < 2 || op.Len > 273 {
			return fmt.Errorf("length %d", op.Len)
		}
		return need(m.Rep[int(op.Kind-OpRep0)] + 1)
	}
	return fmt.Errorf("unknown op")
}

// Put encodes one operation. With force=true the format guards are not
// checked (used to build deliberately invalid streams).
func (e *Encoder) Put(op Op, force bool) error {
	if !force {
		if err := e.Legal(op); err != nil {
			return err
		}
	}
	m := e.M
	win := e.Win
	total := len(win.Buf)
	lc, lp, pb := uint(m.P.LC), uint(m.P.LP), uint(m.P.PB)
	posState := total & (1<<pb - 1)
	st := m.State
	get := func(dist int) byte { // dist >= 1
		if dist > len(win.Buf) {
			return 0
		}
		return win.Buf[len(win.Buf)-dist]
	}
	copyMatch := func(dist uint32, n int) {
		for i := 0; i < n; i++ {
			win.Buf = append(win.Buf, get(int(dist)))
		}
	}
	switch op.Kind {
	case OpLit:
		e.rc.bit(&m.isMatch[st<<posBitsMax+posState], 0)
		var prev byte
		if total > 0 {
			prev = win.Buf[total-1]
		}
		litState := (total&(1<<lp-1))<<lc + int(prev>>(8-lc))
		probs := m.lit[0x300*litState : 0x300*litState+0x300]
		sym := uint32(1)
		b := uint32(op.Byte)
		if st >= 7 {
			mb := uint32(get(int(m.Rep[0]) + 1))
			for {
				matchBit := (mb >> 7) & 1
				mb <<= 1
				bit := (b >> 7) & 1
				b <<= 1
				e.rc.bit(&probs[(1+matchBit)<<8+sym], bit)
				sym = sym<<1 | bit
				if matchBit != bit || sym >= 0x100 {
					break
				}
			}
		}
		for sym < 0x100 {
			bit := (b >> 7) & 1
			b <<= 1
			e.rc.bit(&probs[sym], bit)
			sym = sym<<1 | bit
		}
		win.Buf = append(win.Buf, op.Byte)
		m.State = stLit(st)
	case OpMatch, OpEOS:
		e.rc.bit(&m.isMatch[st<<posBitsMax+posState], 1)
		e.rc.bit(&m.isRep[st], 0)
		n := op.Len - 2
		dist := op.Dist - 1
		if op.Kind == OpEOS {
			n = 0
			dist = 0xFFFFFFFF
		}
		m.Rep[3], m.Rep[2], m.Rep[1] = m.Rep[2], m.Rep[1], m.Rep[0]
		e.rc.length(&m.lenM, posState, n)
		m.State = stMatch(st)
		ls := n
		if ls > 3 {
			ls = 3
		}
		var slot uint32
		if dist < 4 {
			slot = dist
		} else {
			hb := 31
			for dist>>uint(hb) == 0 {
				hb--
			}
			slot = uint32(hb)<<1 | (dist>>uint(hb-1))&1
		}
		e.rc.tree(m.posSlot[ls][:], 6, slot)
		if slot >= 4 {
			nb := int(slot>>1) - 1
			base := (2 | slot&1) << uint(nb)
			rem := dist - base
			if slot < 14 {
				e.rc.rtree(m.posDec[base-slot:], nb, rem)
			} else {
				e.rc.direct(rem>>4, nb-4)
				e.rc.rtree(m.align[:], 4, rem&15)
			}
		}
		m.Rep[0] = dist
		if op.Kind != OpEOS {
			copyMatch(op.Dist, op.Len)
		}
	case OpShortRep:
		e.rc.bit(&m.isMatch[st<<posBitsMax+posState], 1)
		e.rc.bit(&m.isRep[st], 1)
		e.rc.bit(&m.isRepG0[st], 0)
		e.rc.bit(&m.isRep0L[st<<posBitsMax+posState], 0)
		m.State = stShortRep(st)
		copyMatch(m.Rep[0]+1, 1)
	case OpRep0, OpRep1, OpRep2, OpRep3:
		e.rc.bit(&m.isMatch[st<<posBitsMax+posState], 1)
		e.rc.bit(&m.isRep[st], 1)
		if op.Kind == OpRep0 {
			e.rc.bit(&m.isRepG0[st], 0)
			e.rc.bit(&m.isRep0L[st<<posBitsMax+posState], 1)
		} else {
			e.rc.bit(&m.isRepG0[st], 1)
			var dist uint32
			if op.Kind == OpRep1 {
				e.rc.bit(&m.isRepG1[st], 0)
				dist = m.Rep[1]
			} else {
				e.rc.bit(&m.isRepG1[st], 1)
				if op.Kind == OpRep2 {
					e.rc.bit(&m.isRepG2[st], 0)
					dist = m.Rep[2]
				} else {
					e.rc.bit(&m.isRepG2[st], 1)
					dist = m.Rep[3]
					m.Rep[3] = m.Rep[2]
				}
				m.Rep[2] = m.Rep[1]
			}
			m.Rep[1] = m.Rep[0]
			m.Rep[0] = dist
		}
		e.rc.length(&m.repLenM, posState, op.Len-2)
		m.State = stRep(st)
		copyMatch(m.Rep[0]+1, op.Len)
	default:
		return fmt.Errorf("ref: unknown op kind %d", op.Kind)
	}
	return nil
}

// Finish flushes the range coder and returns the compressed bytes.
func (e *Encoder) Finish() []byte {
	e.rc.flush()
	return e.rc.out
}

// Pending is the number of compressed bytes produced so far (without flush).
func (e *Encoder) Pending() int { return len(e.rc.out) + int(e.rc.cacheSize) }

// GreedyOps turns data into a legal operation list using a naive longest
// match search over the window (hash-free, quadratic; for small inputs).
// It is only a convenience for building valid streams; correctness of the
// stream does not depend on its choices.
func GreedyOps(prefixLen int, data []byte, maxDist int) []Op {
	var ops []Op
	full := data
	_ = prefixLen
	i := 0
	for i < len(full) {
		best, bestD := 0, 0
		lo := i - maxDist
		if lo < 0 {
			lo = 0
		}
		for j := i - 1; j >= lo; j-- {
			n := 0
			for i+n < len(full) && n < 273 && full[j+n] == full[i+n] {
				n++
			}
			if n > best {
				best, bestD = n, i-j
				if n == 273 {
					break
				}
			}
		}
		if best >= 3 || (best == 2 && bestD < 128) {
			ops = append(ops, Op{Kind: OpMatch, Len: best, Dist: uint32(bestD)})
			i += best
		} else {
			ops = append(ops, Op{Kind: OpLit, Byte: full[i]})
			i++
		}
	}
	return ops
}
