package core

import (
	"fmt"
	"sync"
	"sync/atomic"
	"time"
)

// X is one execution of a scenario body under the explorer. The body asks it
// for every nondeterministic decision: Choose(n) is a deviation point
// (alternative 0 is the default answer and free, every other alternative
// costs one deviation), Pick(n) is a free point (spelling out an alphabet).
type X struct {
	prefix  []int
	Choices []int
	dev     []bool
	arity   []int
	Log     []string // optional readable trace filled by the body
}

func (x *X) next(n int, dev bool) int {
	i := len(x.Choices)
	c := 0
	if i < len(x.prefix) {
		c = x.prefix[i]
		if c >= n {
			panic(fmt.Sprintf("mc: replay divergence at point %d: choice %d of %d", i, c, n))
		}
	}
	x.Choices = append(x.Choices, c)
	x.dev = append(x.dev, dev)
	x.arity = append(x.arity, n)
	return c
}

// Choose is a deviation point with n alternatives.
func (x *X) Choose(n int) int { return x.next(n, true) }

// Pick is a free choice point with n alternatives.
func (x *X) Pick(n int) int { return x.next(n, false) }

// Logf appends to the readable trace.
func (x *X) Logf(f string, a ...interface{}) { x.Log = append(x.Log, fmt.Sprintf(f, a...)) }

// Deviations counts the deviations taken in this execution.
func (x *X) Deviations() int {
	n := 0
	for i, c := range x.Choices {
		if x.dev[i] && c != 0 {
			n++
		}
	}
	return n
}

// Explorer enumerates every execution of Body whose number of deviations is at
// most Bound (stateless DFS: run a prefix, default choice afterwards, then
// branch on every later point).
type Explorer struct {
	Bound   int
	Body    func(x *X)
	Workers int
	// Stop is polled between executions; when it returns true the search ends
	// and Complete is false.
	Stop func() bool
	// Run and Name (optional) put every execution under the stall guard of the run
	Ctx  *Run
	Name string

	Executions int64
	Points     int64
	MaxDepth   int64
	Complete   bool
}

// Replay runs the body once on a recorded choice sequence.
func Replay(body func(x *X), choices []int) *X {
	x := &X{prefix: choices}
	body(x)
	return x
}

// Run explores everything within the bound.
func (e *Explorer) Run() {
	if e.Workers < 1 {
		e.Workers = 1
	}
	e.Complete = true
	var mu sync.Mutex
	cond := sync.NewCond(&mu)
	queue := [][]int{{}}
	active := 0
	stopped := false
	var wg sync.WaitGroup
	for w := 0; w < e.Workers; w++ {
		wg.Add(1)
		go func() {
			defer wg.Done()
			for {
				mu.Lock()
				for len(queue) == 0 && active > 0 && !stopped {
					cond.Wait()
				}
				if stopped || (len(queue) == 0 && active == 0) {
					mu.Unlock()
					cond.Broadcast()
					return
				}
				// LIFO keeps the queue small (depth first)
				p := queue[len(queue)-1]
				queue = queue[:len(queue)-1]
				active++
				mu.Unlock()

				if e.Stop != nil && e.Stop() {
					mu.Lock()
					stopped = true
					e.Complete = false
					active--
					mu.Unlock()
					cond.Broadcast()
					return
				}
				x := &X{prefix: p}
				if e.Ctx != nil {
					id := e.Ctx.BeginLimit(MkCase(e.Ctx.ID, "explorer-prefix", map[string]interface{}{"explorer": e.Name, "prefix": p}), "stall: an execution of explorer \""+e.Name+"\" did not return", StallLimit)
					t0 := time.Now()
					e.Body(x)
					e.Ctx.End(id)
					noteDone(time.Since(t0))
				} else {
					e.Body(x)
				}
				atomic.AddInt64(&e.Executions, 1)
				atomic.AddInt64(&e.Points, int64(len(x.Choices)))
				for {
					d := atomic.LoadInt64(&e.MaxDepth)
					if int64(len(x.Choices)) <= d || atomic.CompareAndSwapInt64(&e.MaxDepth, d, int64(len(x.Choices))) {
						break
					}
				}
				var kids [][]int
				cost := 0
				for i := 0; i < len(x.Choices); i++ {
					if i >= len(p) {
						c := cost
						if x.dev[i] {
							c++
						}
						if c <= e.Bound {
							for alt := 1; alt < x.arity[i]; alt++ {
								k := make([]int, i+1)
								copy(k, x.Choices[:i])
								k[i] = alt
								kids = append(kids, k)
							}
						}
					}
					if x.dev[i] && x.Choices[i] != 0 {
						cost++
					}
				}
				mu.Lock()
				queue = append(queue, kids...)
				active--
				mu.Unlock()
				cond.Broadcast()
			}
		}()
	}
	wg.Wait()
}

// SelfTestMC checks the explorer on toy bodies with known execution counts.
func SelfTestMC() error {
	body := func(x *X) {
		for i := 0; i < 3; i++ {
			x.Choose(2)
		}
	}
	for _, tc := range []struct{ bound, want int }{{0, 1}, {1, 4}, {2, 7}, {3, 8}} {
		e := &Explorer{Bound: tc.bound, Body: body, Workers: 4}
		e.Run()
		if int(e.Executions) != tc.want {
			return fmt.Errorf("mc self-test: bound %d: %d executions, want %d", tc.bound, e.Executions, tc.want)
		}
	}
	e := &Explorer{Bound: 0, Workers: 3, Body: func(x *X) {
		for i := 0; i < 3; i++ {
			x.Pick(3)
		}
	}}
	e.Run()
	if e.Executions != 27 {
		return fmt.Errorf("mc self-test: Pick(3)^3: %d executions, want 27", e.Executions)
	}
	return nil
}
