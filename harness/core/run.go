// Package core holds what every check shares: the run context (workers,
// deadline, watchdog, distinct-outcome accounting), violations with site
// signatures, known findings, replay files and the evidence writer.
package core

import (
	"crypto/sha256"
	"encoding/binary"
	"encoding/json"
	"fmt"
	"os"
	"path/filepath"
	"runtime"
	"runtime/debug"
	"sort"
	"strings"
	"sync"
	"sync/atomic"
	"time"
)

// Root is the /verif directory (overridable for tests of the harness itself).
var Root = func() string {
	if v := os.Getenv("VERIF_ROOT"); v != "" {
		return v
	}
	return "/verif"
}()

// Out is where evidence/, results/ and replays/ are written (default: Root).
var Out = func() string {
	if v := os.Getenv("VERIF_OUT"); v != "" {
		return v
	}
	return Root
}()

// Case is one replayable execution: the scenario name selects the function
// that re-executes it and Params is whatever that function needs.
type Case struct {
	Property string          `json:"property"`
	Scenario string          `json:"scenario"`
	Params   json.RawMessage `json:"params"`
}

// Violation describes one failing case.
type Violation struct {
	Property  string `json:"property"`
	Signature string `json:"signature"`
	Desc      string `json:"description"`
	Case      Case   `json:"case"`
	Observed  string `json:"observed,omitempty"`
	Expected  string `json:"expected,omitempty"`
}

// Finding is one entry of known_findings.json.
type Finding struct {
	Property  string `json:"property"`
	Status    string `json:"status"` // "known" | "fixed"
	Signature string `json:"signature"`
	Desc      string `json:"description"`
	Commit    string `json:"commit,omitempty"`
}

// Run is the context of one check invocation.
type Run struct {
	ID    string
	Tier  string
	Seed  int64
	Level string
	Start time.Time
	// Deadline after which enumeration loops stop (exhaustive:false).
	Deadline time.Time
	Workers  int
	Replay   bool // true when re-executing a single case

	mu         sync.Mutex
	viol       []Violation
	violSig    map[string]int
	known      map[string]Finding
	knownHit   map[string]int
	outcomes   map[uint64]struct{}
	nontrivial map[uint64]struct{}
	counters   map[string]int64
	samples    []interface{}
	notes      []string
	assume     []string
	capsHit    []string
	extra      map[string]interface{}
	evals      int64
	busy       []atomic.Value // per worker: *busyInfo
	states     map[string]struct{}
	trans      map[string]struct{}
	traces     int64
	Rule       string
	exhaustive bool
	maxCase    map[string]float64
	// OnlyWhat/OnlyIndex restrict Parallel enumerations to one case (replay of an IndexCase)
	OnlyWhat  string
	OnlyIndex int
}

type busyInfo struct {
	since time.Time
	c     *Case
}

// NewRun creates the context and loads known findings.
func NewRun(id, tier string, seed int64, level string) *Run {
	r := &Run{ID: id, Tier: tier, Seed: seed, Level: level, Start: time.Now(),
		Workers: runtime.NumCPU(), violSig: map[string]int{}, known: map[string]Finding{},
		knownHit: map[string]int{}, outcomes: map[uint64]struct{}{}, nontrivial: map[uint64]struct{}{},
		counters: map[string]int64{}, extra: map[string]interface{}{},
		states: map[string]struct{}{}, trans: map[string]struct{}{}, exhaustive: true, maxCase: map[string]float64{}}
	if r.Workers > 16 {
		r.Workers = 16
	}
	if v := os.Getenv("VERIF_WORKERS"); v != "" {
		fmt.Sscan(v, &r.Workers)
	}
	r.busy = make([]atomic.Value, r.Workers+1)
	b, err := os.ReadFile(filepath.Join(Root, "known_findings.json"))
	if err == nil {
		var fs []Finding
		if err := json.Unmarshal(b, &fs); err != nil {
			fmt.Fprintf(os.Stderr, "known_findings.json: %v\n", err)
			os.Exit(2)
		}
		for _, f := range fs {
			if f.Status == "known" {
				r.known[f.Property+"|"+f.Signature] = f
			}
		}
	}
	return r
}

// SetBudget sets the internal deadline.
func (r *Run) SetBudget(d time.Duration) {
	if v := os.Getenv("VERIF_BUDGET_S"); v != "" {
		var s float64
		if _, err := fmt.Sscan(v, &s); err == nil {
			d = time.Duration(s * float64(time.Second))
		}
	}
	r.Deadline = r.Start.Add(d)
}

// Expired reports whether the internal deadline has passed; the caller stops
// enumerating and the run is recorded as not exhaustive.
func (r *Run) Expired(what string) bool {
	if r.Deadline.IsZero() || time.Now().Before(r.Deadline) {
		return false
	}
	r.CapHit("deadline reached in " + what)
	return true
}

// CapHit records that some cap stopped complete enumeration.
func (r *Run) CapHit(s string) {
	r.mu.Lock()
	defer r.mu.Unlock()
	r.exhaustive = false
	for _, c := range r.capsHit {
		if c == s {
			return
		}
	}
	r.capsHit = append(r.capsHit, s)
}

// Count adds to a named counter (reported in evidence).
func (r *Run) Count(name string, n int64) {
	r.mu.Lock()
	r.counters[name] += n
	r.mu.Unlock()
}

// Counter reads a counter.
func (r *Run) Counter(name string) int64 {
	r.mu.Lock()
	defer r.mu.Unlock()
	return r.counters[name]
}

// Eval records one execution and the hash of what was observed.
func (r *Run) Eval(obs uint64) {
	r.mu.Lock()
	r.evals++
	r.outcomes[obs] = struct{}{}
	r.mu.Unlock()
}

// Nontrivial records a case as non-trivial by the check's rule under key k.
func (r *Run) Nontrivial(k uint64) {
	r.mu.Lock()
	r.nontrivial[k] = struct{}{}
	r.mu.Unlock()
}

// State and Trans record reference-model states / transitions actually visited.
func (r *Run) State(s string) {
	r.mu.Lock()
	r.states[s] = struct{}{}
	r.mu.Unlock()
}
func (r *Run) Trans(s string) {
	r.mu.Lock()
	r.trans[s] = struct{}{}
	r.mu.Unlock()
}
func (r *Run) Trace(n int64) { atomic.AddInt64(&r.traces, n) }

// HasTrans reports whether a transition label was visited.
func (r *Run) HasTrans(s string) bool {
	r.mu.Lock()
	defer r.mu.Unlock()
	_, ok := r.trans[s]
	return ok
}

// Sample keeps up to 12 written-out cases.
func (r *Run) Sample(v interface{}) {
	r.mu.Lock()
	if len(r.samples) < 12 {
		r.samples = append(r.samples, v)
	}
	r.mu.Unlock()
}

func (r *Run) Note(s string)   { r.mu.Lock(); r.notes = append(r.notes, s); r.mu.Unlock() }
func (r *Run) Assume(s string) { r.mu.Lock(); r.assume = append(r.assume, s); r.mu.Unlock() }
func (r *Run) Extra(k string, v interface{}) {
	r.mu.Lock()
	r.extra[k] = v
	r.mu.Unlock()
}

// Hash is a helper for observation hashing.
func Hash(parts ...interface{}) uint64 {
	h := sha256.New()
	for _, p := range parts {
		switch v := p.(type) {
		case []byte:
			var l [8]byte
			binary.LittleEndian.PutUint64(l[:], uint64(len(v)))
			h.Write(l[:])
			h.Write(v)
		case string:
			var l [8]byte
			binary.LittleEndian.PutUint64(l[:], uint64(len(v)))
			h.Write(l[:])
			h.Write([]byte(v))
		default:
			fmt.Fprintf(h, "%v|", v)
		}
	}
	return binary.LittleEndian.Uint64(h.Sum(nil)[:8])
}

// MkCase builds a Case from params.
func MkCase(prop, scenario string, params interface{}) Case {
	b, err := json.Marshal(params)
	if err != nil {
		panic(err)
	}
	return Case{Property: prop, Scenario: scenario, Params: b}
}

// Violate records a violation (deduplicated per signature: the first case of
// each signature is kept as replay, the others are counted).
func (r *Run) Violate(c Case, sig, desc, observed, expected string) {
	r.mu.Lock()
	defer r.mu.Unlock()
	key := c.Property + "|" + sig
	if _, ok := r.known[key]; ok {
		r.knownHit[key]++
		return
	}
	r.violSig[key]++
	if r.violSig[key] > 1 {
		return
	}
	if len(observed) > 600 {
		observed = observed[:600] + "…"
	}
	if len(expected) > 600 {
		expected = expected[:600] + "…"
	}
	r.viol = append(r.viol, Violation{Property: c.Property, Signature: sig, Desc: desc, Case: c, Observed: observed, Expected: expected})
}

// Violations returns the number of distinct violating signatures.
func (r *Run) Violations() int {
	r.mu.Lock()
	defer r.mu.Unlock()
	return len(r.viol)
}

// PanicInfo is what Guard returns for a recovered panic.
type PanicInfo struct {
	Value string
	Stack string
}

// Guard runs f and converts a panic into a value.
func Guard(f func()) (p *PanicInfo) {
	defer func() {
		if v := recover(); v != nil {
			p = &PanicInfo{Value: fmt.Sprint(v), Stack: trimStack(string(debug.Stack()))}
		}
	}()
	f()
	return nil
}

func trimStack(s string) string {
	lines := strings.Split(s, "\n")
	var out []string
	for _, l := range lines {
		if strings.Contains(l, "/repo/") || strings.Contains(l, "ulikunitz") || (os.Getenv("VERIF_REPO") != "" && strings.Contains(l, os.Getenv("VERIF_REPO")+"/")) {
			out = append(out, strings.TrimSpace(l))
			if len(out) >= 8 {
				break
			}
		}
	}
	return strings.Join(out, " | ")
}

// PanicSite extracts a stable site name (function of the first repository frame).
func (p *PanicInfo) Site() string {
	parts := strings.Split(p.Stack, " | ")
	for _, l := range parts {
		if strings.Contains(l, "ulikunitz/xz") && strings.Contains(l, "(") {
			f := l
			if i := strings.LastIndex(f, "("); i > 0 {
				f = f[:i]
			}
			if i := strings.LastIndex(f, "/"); i >= 0 {
				f = f[i+1:]
			}
			return f
		}
	}
	return "unknown"
}

// IndexCase identifies one case of a Parallel enumeration by its position (the enumerations are
// deterministic); `vcheck replay` re-runs the check restricted to that index.
type IndexCase struct {
	What  string
	Index int
	Tier  string
}

// StallLimit is the time after which a single case counts as stalled (the slowest legitimate
// case takes well under a tenth of it; the measured maximum is recorded in the evidence).
var StallLimit = func() time.Duration {
	if v := os.Getenv("VERIF_STALL_S"); v != "" {
		var s float64
		if _, err := fmt.Sscan(v, &s); err == nil && s > 0 {
			return time.Duration(s * float64(time.Second))
		}
	}
	return 300 * time.Second
}()

// Parallel runs f(i) for i in [0,n) on the worker pool. Each worker announces the
// case it is about to run so that the watchdog can name a stuck case. f must do
// its own panic handling for library calls; a panic escaping f is a harness
// error and aborts the run with exit status 2.
func (r *Run) Parallel(n int, what string, f func(i int)) {
	var next int64 = -1
	var wg sync.WaitGroup
	w := r.Workers
	if w > n {
		w = n
	}
	if w < 1 {
		w = 1
	}
	for k := 0; k < w; k++ {
		wg.Add(1)
		go func(k int) {
			defer wg.Done()
			for {
				i := int(atomic.AddInt64(&next, 1))
				if i >= n {
					return
				}
				if i%64 == 0 && r.Expired(what) {
					// mark the remainder as not covered
					atomic.StoreInt64(&next, int64(n))
					r.Count("skipped_after_deadline:"+what, int64(n-i))
					return
				}
				if r.OnlyWhat != "" && (r.OnlyWhat != what || r.OnlyIndex != i) {
					continue
				}
				// generic stall guard: a case that does not return is a violation of the
				// property under test (no call blocks forever), reported with its index
				id := r.BeginLimit(MkCase(r.ID, "index", IndexCase{What: what, Index: i, Tier: r.Tier}), "stall: a case of \""+what+"\" did not return", StallLimit)
				t0 := time.Now()
				f(i)
				r.End(id)
				noteDone(time.Since(t0))
				if d := time.Since(t0).Seconds(); d > 1 {
					r.mu.Lock()
					if d > r.maxCase[what] {
						r.maxCase[what] = d
					}
					r.mu.Unlock()
				}
			}
		}(k)
	}
	wg.Wait()
}

// Watch runs one case under the stall watchdog: if f does not return within
// limit the case is reported as a stall violation and the process exits (a
// goroutine spinning inside the library cannot be stopped otherwise).
func (r *Run) Watch(c Case, limit time.Duration, sig string, f func()) {
	done := make(chan struct{})
	go func() {
		select {
		case <-done:
		case <-time.After(limit):
			r.Violate(c, sig, fmt.Sprintf("call did not return within %v", limit), "stall", "bounded time")
			code := r.Finish()
			if code == 0 {
				code = 1
			}
			os.Exit(code)
		}
	}()
	f()
	close(done)
}

// Finish prints violations / known findings, writes replays and the evidence
// file and returns the exit status.
func (r *Run) Finish() int {
	r.mu.Lock()
	defer r.mu.Unlock()
	wall := time.Since(r.Start).Seconds()
	os.MkdirAll(filepath.Join(Out, "replays"), 0o755)
	os.MkdirAll(filepath.Join(Out, "evidence"), 0o755)
	keys := make([]string, 0, len(r.knownHit))
	for k := range r.knownHit {
		keys = append(keys, k)
	}
	sort.Strings(keys)
	for _, k := range keys {
		f := r.known[k]
		fmt.Printf("KNOWN-FINDING: property=%s %s — %s (%d cases)\n", f.Property, f.Signature, f.Desc, r.knownHit[k])
	}
	for _, v := range r.viol {
		b, _ := json.MarshalIndent(v, "", " ")
		h := sha256.Sum256(b)
		p := filepath.Join(Out, "replays", fmt.Sprintf("%s-%x.json", v.Property, h[:6]))
		os.WriteFile(p, b, 0o644)
		fmt.Printf("VIOLATION property=%s replay=%s\n", v.Property, p)
		fmt.Printf("  signature: %s\n  %s\n  observed: %s\n  expected: %s\n  (%d cases with this signature)\n",
			v.Signature, v.Desc, v.Observed, v.Expected, r.violSig[v.Property+"|"+v.Signature])
	}
	if r.Replay {
		if len(r.viol) > 0 {
			return 1
		}
		return 0
	}
	cov := map[string]interface{}{}
	for k, v := range r.extra {
		cov[k] = v
	}
	cov["evaluations"] = r.evals
	cov["distinct_outcomes"] = len(r.outcomes)
	dn := len(r.nontrivial)
	cov["distinct_nontrivial"] = dn
	cov["rule"] = r.Rule
	if len(r.samples) == 0 {
		r.samples = append(r.samples, "no sample recorded")
	}
	cov["samples"] = r.samples
	cov["exhaustive"] = r.exhaustive
	if len(r.capsHit) > 0 {
		cov["caps_hit"] = r.capsHit
	}
	if len(r.counters) > 0 {
		cov["counters"] = r.counters
	}
	if len(r.notes) > 0 {
		cov["notes"] = r.notes
	}
	if len(r.maxCase) > 0 {
		cov["slowest_case_seconds"] = r.maxCase
		cov["stall_limit_seconds"] = StallLimit.Seconds()
	}
	if r.Level == "model_checking" {
		cov["states"] = len(r.states)
		cov["transitions"] = len(r.trans)
		cov["traces_validated_against_impl"] = r.traces
		tl := make([]string, 0, len(r.trans))
		for t := range r.trans {
			tl = append(tl, t)
		}
		sort.Strings(tl)
		if len(tl) > 200 {
			tl = tl[:200]
		}
		cov["transition_labels"] = tl
	}
	kh := []string{}
	for _, k := range keys {
		kh = append(kh, k)
	}
	cov["known_findings_hit"] = kh
	ev := map[string]interface{}{
		"property_id": r.ID, "tier": r.Tier, "seed": r.Seed, "level": r.Level,
		"coverage": cov, "assumptions": r.assume, "wall_s": wall, "violations": len(r.viol),
	}
	if r.assume == nil {
		ev["assumptions"] = []string{}
	}
	b, _ := json.MarshalIndent(ev, "", " ")
	if err := os.WriteFile(filepath.Join(Out, "evidence", r.ID+".json"), b, 0o644); err != nil {
		fmt.Fprintln(os.Stderr, "evidence:", err)
		return 2
	}
	// a per-tier copy for the bounds table of DESIGN.md (the evidence file holds the last run only)
	os.MkdirAll(filepath.Join(Out, "results"), 0o755)
	os.WriteFile(filepath.Join(Out, "results", r.ID+"."+r.Tier+".json"), b, 0o644)
	fmt.Printf("%s %s: evaluations=%d distinct_outcomes=%d nontrivial=%d states=%d transitions=%d traces=%d exhaustive=%v violations=%d known=%d wall=%.1fs\n",
		r.ID, r.Tier, r.evals, len(r.outcomes), dn, len(r.states), len(r.trans), r.traces, r.exhaustive, len(r.viol), len(keys), wall)
	for _, c := range r.capsHit {
		fmt.Println("  cap:", c)
	}
	if len(r.viol) > 0 {
		return 1
	}
	return 0
}

// AddEvals adds n executions that were not individually hashed.
func (r *Run) AddEvals(n int64) {
	r.mu.Lock()
	r.evals += n
	r.mu.Unlock()
}

// ---- stall watchdog: Begin/End bracket a case; a case that stays open longer
// than the limit is reported as a stall violation and the process exits.

type openCase struct {
	c     Case
	since time.Time
	sig   string
	limit time.Duration
}

var (
	wdMu    sync.Mutex
	wdOpen  = map[int64]*openCase{}
	wdNext  int64
	wdOnce  sync.Once
	wdLimit = 30 * time.Second
)

// slowestDone is the duration (ns) of the slowest guarded case that has completed.
var slowestDone int64

func noteDone(d time.Duration) {
	for {
		cur := atomic.LoadInt64(&slowestDone)
		if int64(d) <= cur || atomic.CompareAndSwapInt64(&slowestDone, cur, int64(d)) {
			return
		}
	}
}

// Begin registers a running case with the watchdog.
func (r *Run) Begin(c Case, stallSig string) int64 { return r.BeginLimit(c, stallSig, wdLimit) }

// BeginLimit is Begin with an explicit limit.
func (r *Run) BeginLimit(c Case, stallSig string, limit time.Duration) int64 {
	wdOnce.Do(func() {
		go func() {
			for {
				time.Sleep(2 * time.Second)
				wdMu.Lock()
				var stuck *openCase
				for _, oc := range wdOpen {
					// the limit adapts to the machine: never less than 40 times the slowest case
					// that has completed so far (a loaded machine slows every case alike)
					lim := oc.limit
					if m := time.Duration(atomic.LoadInt64(&slowestDone)) * 40; m > lim {
						lim = m
					}
					if time.Since(oc.since) > lim {
						stuck = oc
						break
					}
				}
				wdMu.Unlock()
				if stuck != nil {
					r.Violate(stuck.c, stuck.sig, fmt.Sprintf("call did not return within %v (stall watchdog)", stuck.limit), "stall", "every call returns in bounded time")
					code := r.Finish()
					if code == 0 {
						code = 1
					}
					os.Exit(code)
				}
			}
		}()
	})
	wdMu.Lock()
	wdNext++
	id := wdNext
	wdOpen[id] = &openCase{c: c, since: time.Now(), sig: stallSig, limit: limit}
	wdMu.Unlock()
	return id
}

// End unregisters a case.
func (r *Run) End(id int64) {
	wdMu.Lock()
	delete(wdOpen, id)
	wdMu.Unlock()
}
