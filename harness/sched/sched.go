// Package sched is a cooperative scheduler for a few goroutine bodies: exactly
// one body runs at a time, control changes hands only at scheduling points
// (Point, simulated mutex operations, body end) and the explorer (core.X)
// decides who runs next. Switching away from a runnable thread costs one
// preemption (a deviation); everything else is free.
package sched

import (
	"fmt"
	"unsafe"

	"verif/core"
)

// T is the handle a body uses to yield.
type T struct {
	s  *S
	id int
}

type thr struct {
	id      int
	wake    chan struct{}
	done    bool
	blocked unsafe.Pointer // mutex waited for
	pan     interface{}
}

// S is one scheduled execution.
type S struct {
	x       *core.X
	thr     []*thr
	cur     int
	yield   chan struct{}
	held    map[unsafe.Pointer]int // simulated mutexes: owner thread
	Points  int
	Switch  int
	Trace   []int
	Dead    bool
	running bool
}

// Current is the execution in progress (the shim hook needs a global).
var Current *S

// Point is a scheduling point of the running body.
func (t *T) Point() { t.s.point() }

func (s *S) point() {
	if !s.running {
		return
	}
	s.Points++
	me := s.thr[s.cur]
	s.yield <- struct{}{}
	<-me.wake
}

// HookSync is installed as the shim hook: every sync operation is a scheduling
// point; mutexes are simulated (only one thread runs at a time).
func HookSync(op string, obj unsafe.Pointer) bool {
	s := Current
	if s == nil || !s.running {
		return false
	}
	switch op {
	case "lock", "rlock":
		s.point()
		for {
			if _, h := s.held[obj]; !h {
				s.held[obj] = s.cur
				return true
			}
			// block until released
			me := s.thr[s.cur]
			me.blocked = obj
			s.yield <- struct{}{}
			<-me.wake
			me.blocked = nil
		}
	case "unlock", "runlock":
		delete(s.held, obj)
		s.point()
		return true
	default:
		s.point()
		return false
	}
}

// Run executes the bodies under the scheduler with decisions from x.
// It returns an error for a deadlock; panics of bodies are re-raised as values in Panics.
func Run(x *core.X, bodies []func(t *T)) (s *S, panics []interface{}, err error) {
	s = &S{x: x, yield: make(chan struct{}), held: map[unsafe.Pointer]int{}}
	Current = s
	defer func() { Current = nil }()
	panics = make([]interface{}, len(bodies))
	for i, b := range bodies {
		t := &thr{id: i, wake: make(chan struct{})}
		s.thr = append(s.thr, t)
		go func(i int, b func(t *T), t *thr) {
			<-t.wake
			defer func() {
				if v := recover(); v != nil {
					t.pan = v
				}
				t.done = true
				s.yield <- struct{}{}
			}()
			b(&T{s: s, id: i})
		}(i, b, t)
	}
	s.running = true
	s.cur = -1
	for {
		var enabled []int
		for _, t := range s.thr {
			if t.done {
				continue
			}
			if t.blocked != nil {
				if _, h := s.held[t.blocked]; h {
					continue
				}
			}
			enabled = append(enabled, t.id)
		}
		if len(enabled) == 0 {
			all := true
			for _, t := range s.thr {
				if !t.done {
					all = false
				}
			}
			if !all {
				s.Dead = true
				err = fmt.Errorf("deadlock: no enabled thread")
			}
			break
		}
		// canonical order: running thread first if still enabled, then ascending ids
		order := enabled
		curEnabled := false
		for _, id := range enabled {
			if id == s.cur {
				curEnabled = true
			}
		}
		next := 0
		if curEnabled {
			order = []int{s.cur}
			for _, id := range enabled {
				if id != s.cur {
					order = append(order, id)
				}
			}
			if len(order) > 1 {
				next = x.Choose(len(order)) // alternative != 0 is a preemption
			}
		} else if len(order) > 1 {
			next = x.Pick(len(order)) // the running thread ended or blocked: free choice
		}
		id := order[next]
		if id != s.cur {
			s.Switch++
		}
		s.cur = id
		s.Trace = append(s.Trace, id)
		s.thr[id].wake <- struct{}{}
		<-s.yield
	}
	s.running = false
	for i, t := range s.thr {
		panics[i] = t.pan
	}
	return s, panics, err
}

// SelfTest: two toy threads doing an unprotected read-modify-write must show
// >= 2 distinct outcomes at preemption bound 1 and exactly 1 at bound 0.
func SelfTest() error {
	for _, tc := range []struct{ bound, min, max int }{{0, 1, 1}, {1, 2, 9}} {
		outcomes := map[int]bool{}
		e := &core.Explorer{Bound: tc.bound, Workers: 1, Body: func(x *core.X) {
			counter := 0
			body := func(t *T) {
				v := counter
				t.Point()
				counter = v + 1
			}
			Run(x, []func(t *T){body, body})
			outcomes[counter] = true
		}}
		e.Run()
		if len(outcomes) < tc.min || len(outcomes) > tc.max {
			return fmt.Errorf("sched self-test: bound %d gave %d distinct outcomes", tc.bound, len(outcomes))
		}
	}
	return nil
}
