//go:build linux && amd64

package sysx

import (
	"bufio"
	"encoding/json"
	"fmt"
	"io"
	"os"
	"os/exec"
	"sync"
)

// Worker is a subprocess (the vcheck binary in sysx-worker mode) hosting one tracer.
type Worker struct {
	cmd *exec.Cmd
	in  io.WriteCloser
	out *bufio.Reader
}

// Pool distributes traced runs over worker processes.
type Pool struct {
	free chan *Worker
	all  []*Worker
	mu   sync.Mutex
}

// NewPool starts n workers.
func NewPool(n int) (*Pool, error) {
	self, err := os.Executable()
	if err != nil {
		return nil, err
	}
	p := &Pool{free: make(chan *Worker, n)}
	for i := 0; i < n; i++ {
		c := exec.Command(self, "sysx-worker")
		c.Stderr = os.Stderr
		in, e1 := c.StdinPipe()
		out, e2 := c.StdoutPipe()
		if e1 != nil || e2 != nil {
			return nil, fmt.Errorf("pipes: %v %v", e1, e2)
		}
		if err := c.Start(); err != nil {
			return nil, err
		}
		w := &Worker{cmd: c, in: in, out: bufio.NewReaderSize(out, 1<<20)}
		p.all = append(p.all, w)
		p.free <- w
	}
	return p, nil
}

// Run executes one job on a free worker.
func (p *Pool) Run(job Job) (Result, error) {
	w := <-p.free
	defer func() { p.free <- w }()
	b, _ := json.Marshal(job)
	if _, err := w.in.Write(append(b, '\n')); err != nil {
		return Result{}, err
	}
	line, err := w.out.ReadBytes('\n')
	if err != nil {
		return Result{}, err
	}
	var r Result
	if err := json.Unmarshal(line, &r); err != nil {
		return Result{}, err
	}
	return r, nil
}

// Close stops the workers.
func (p *Pool) Close() {
	for _, w := range p.all {
		w.in.Close()
		w.cmd.Wait()
	}
}

// WorkerMain is the loop of a worker process.
func WorkerMain() {
	in := bufio.NewReaderSize(os.Stdin, 1<<20)
	out := bufio.NewWriter(os.Stdout)
	for {
		line, err := in.ReadBytes('\n')
		if len(line) > 0 {
			var job Job
			if e := json.Unmarshal(line, &job); e != nil {
				fmt.Fprintln(os.Stderr, "sysx worker: bad job:", e)
				os.Exit(2)
			}
			res := Trace(job)
			b, _ := json.Marshal(res)
			out.Write(append(b, '\n'))
			out.Flush()
		}
		if err != nil {
			return
		}
	}
}
