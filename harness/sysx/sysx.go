//go:build linux && amd64

// Package sysx is a ptrace-based system-call stepper: it runs an unmodified
// binary, records the ordered list of file-system calls that touch a scenario
// directory, and can kill the process before call k (crash point) or make call
// k fail with a chosen errno (fault point).
package sysx

import (
	"fmt"
	"os"
	"path/filepath"
	"runtime"
	"strings"
	"syscall"
	"time"
)

// Call is one recorded file-system call.
type Call struct {
	Nr    int    `json:"nr"`
	Name  string `json:"name"`
	Path  string `json:"path,omitempty"`  // resolved path relative to the scenario directory ("" for fd calls: see FdPath)
	Path2 string `json:"path2,omitempty"` // second path (rename)
	Fd    int    `json:"fd,omitempty"`
	Len   int    `json:"len,omitempty"` // byte count for read/write
	Ret   int64  `json:"ret"`
}

func (c Call) String() string {
	s := c.Name + "(" + c.Path
	if c.Path2 != "" {
		s += " -> " + c.Path2
	}
	if c.Len > 0 {
		s += fmt.Sprintf(" %dB", c.Len)
	}
	return s + ")"
}

// Kind groups calls for the fault menu.
func (c Call) Kind() string {
	switch c.Name {
	case "read", "pread64":
		return "read"
	case "write", "pwrite64":
		return "write"
	case "openat", "open", "creat":
		return "open"
	case "close":
		return "close"
	case "rename", "renameat", "renameat2":
		return "rename"
	case "unlink", "unlinkat", "rmdir":
		return "unlink"
	case "stat", "lstat", "fstat", "newfstatat", "statx", "access", "faccessat", "faccessat2", "readlink", "readlinkat":
		return "stat"
	}
	return "other"
}

// Job describes one traced run.
type Job struct {
	Argv  []string `json:"argv"`
	Dir   string   `json:"dir"` // scenario directory (cwd of the child)
	Stdin string   `json:"stdin,omitempty"`
	// Mode: "record", "crash" (kill before call K; Half: let a write of half the bytes complete first),
	// "fault" (call K fails with Errno; Forever: also every later call of the same kind), "signal" (send Sig before call K)
	Mode    string `json:"mode"`
	K       int    `json:"k"`
	Half    bool   `json:"half,omitempty"`
	Errno   int    `json:"errno,omitempty"`
	Forever bool   `json:"forever,omitempty"`
	Sig     int    `json:"sig,omitempty"`
	// second, independent fault point (mode "fault" only; K2 < 0 = none)
	K2     int `json:"k2"`
	Errno2 int `json:"errno2,omitempty"`
	// TrackStdout: treat writes to fd 1 as file-system calls of the scenario.
	TrackStdout bool   `json:"track_stdout,omitempty"`
	StdoutFile  string `json:"stdout_file,omitempty"`
	TimeoutMs   int    `json:"timeout_ms,omitempty"`
	// Gates (two-process exploration): before tracked call k (k in GateAt) the tracer creates
	// <GateDir>/<GateTag>.at.<k> and holds the stopped process until <GateDir>/<GateTag>.go.<k>
	// appears (continue) or <GateDir>/<GateTag>.kill.<k> (SIGKILL). GateDir lies outside Dir.
	GateDir string `json:"gate_dir,omitempty"`
	GateTag string `json:"gate_tag,omitempty"`
	GateAt  []int  `json:"gate_at,omitempty"`
}

// Result of a traced run.
type Result struct {
	Calls    []Call `json:"calls"`
	Exit     int    `json:"exit"`   // exit status, -1 if killed
	Killed   bool   `json:"killed"` // killed by the stepper (crash point reached)
	Signal   int    `json:"signal,omitempty"`
	Injected int    `json:"injected"` // number of calls that were made to fail
	Reached  bool   `json:"reached"`  // call K was reached
	Err      string `json:"err,omitempty"`
	TimedOut bool   `json:"timed_out,omitempty"`
}

var sysNames = map[int]string{
	0: "read", 1: "write", 2: "open", 3: "close", 4: "stat", 5: "fstat", 6: "lstat", 17: "pread64", 18: "pwrite64",
	21: "access", 74: "fsync", 75: "fdatasync", 76: "truncate", 77: "ftruncate", 82: "rename", 83: "mkdir", 84: "rmdir", 85: "creat",
	86: "link", 87: "unlink", 88: "symlink", 89: "readlink", 90: "chmod", 91: "fchmod", 92: "chown", 93: "fchown",
	257: "openat", 258: "mkdirat", 260: "fchownat", 262: "newfstatat", 263: "unlinkat", 264: "renameat", 265: "linkat", 266: "symlinkat",
	267: "readlinkat", 268: "fchmodat", 269: "faccessat", 280: "utimensat", 285: "fallocate", 316: "renameat2", 332: "statx", 439: "faccessat2",
	217: "getdents64", 326: "copy_file_range", 40: "sendfile", 275: "splice",
}

const atFdCwd = -100

type tstate struct {
	inSyscall bool
	cur       *pending
}

type pending struct {
	call      Call
	track     bool
	inject    bool
	errno     int
	newFd     bool
	half      bool
	killAfter bool
}

func readString(pid int, addr uintptr) string {
	if addr == 0 {
		return ""
	}
	var out []byte
	buf := make([]byte, 8)
	for len(out) < 4096 {
		n, err := syscall.PtracePeekData(pid, addr+uintptr(len(out)), buf)
		if err != nil || n == 0 {
			break
		}
		for i := 0; i < n; i++ {
			if buf[i] == 0 {
				return string(out)
			}
			out = append(out, buf[i])
		}
	}
	return string(out)
}

// Trace runs the job. It must be the only tracer of the calling process.
func Trace(job Job) (res Result) {
	runtime.LockOSThread()
	defer runtime.UnlockOSThread()
	dir, err := filepath.EvalSymlinks(job.Dir)
	if err != nil {
		res.Err = err.Error()
		return
	}
	attr := &syscall.ProcAttr{Dir: dir, Env: append(os.Environ(), "GOMAXPROCS=1", "GOGC=off"), Sys: &syscall.SysProcAttr{Ptrace: true}}
	devnull, _ := os.OpenFile(os.DevNull, os.O_RDWR, 0)
	defer devnull.Close()
	stdin := devnull
	if job.Stdin != "" {
		f, err := os.Open(job.Stdin)
		if err != nil {
			res.Err = err.Error()
			return
		}
		defer f.Close()
		stdin = f
	}
	stdout := devnull
	if job.StdoutFile != "" {
		f, err := os.OpenFile(job.StdoutFile, os.O_WRONLY|os.O_CREATE|os.O_TRUNC, 0o644)
		if err != nil {
			res.Err = err.Error()
			return
		}
		defer f.Close()
		stdout = f
	}
	attr.Files = []uintptr{stdin.Fd(), stdout.Fd(), devnull.Fd()}
	bin := job.Argv[0]
	pid, err := syscall.ForkExec(bin, job.Argv, attr)
	if err != nil {
		res.Err = "forkexec: " + err.Error()
		return
	}
	var ws syscall.WaitStatus
	if _, err = syscall.Wait4(pid, &ws, 0, nil); err != nil || !ws.Stopped() {
		res.Err = fmt.Sprintf("initial wait: %v %v", err, ws)
		return
	}
	opts := syscall.PTRACE_O_TRACESYSGOOD | syscall.PTRACE_O_TRACECLONE | syscall.PTRACE_O_TRACEFORK | syscall.PTRACE_O_TRACEVFORK | 0x100000 /* PTRACE_O_EXITKILL */
	if err = syscall.PtraceSetOptions(pid, opts); err != nil {
		res.Err = "setoptions: " + err.Error()
		syscall.Kill(pid, syscall.SIGKILL)
		return
	}
	threads := map[int]*tstate{pid: {}}
	fds := map[int]string{} // tracked fds -> relative path
	if job.TrackStdout {
		fds[1] = "<stdout>"
	}
	rel := func(p string, dirfd int) (string, bool) {
		if p == "" {
			return "", false
		}
		if !filepath.IsAbs(p) {
			if dirfd != atFdCwd {
				base, ok := fds[dirfd]
				if !ok {
					return "", false
				}
				p = filepath.Join(dir, base, p)
			} else {
				p = filepath.Join(dir, p)
			}
		}
		p = filepath.Clean(p)
		if p == dir {
			return ".", true
		}
		if strings.HasPrefix(p, dir+"/") {
			return p[len(dir)+1:], true
		}
		return "", false
	}
	deadline := time.Now().Add(20 * time.Second)
	if job.TimeoutMs > 0 {
		deadline = time.Now().Add(time.Duration(job.TimeoutMs) * time.Millisecond)
	}
	killAll := func() {
		syscall.Kill(pid, syscall.SIGKILL)
	}
	idx := 0 // index of the next tracked call
	faultKind := ""
	if err = syscall.PtraceSyscall(pid, 0); err != nil {
		res.Err = "ptrace syscall: " + err.Error()
		killAll()
		return
	}
	mainExited := false
	for !mainExited {
		if time.Now().After(deadline) {
			res.TimedOut = true
			killAll()
			deadline = time.Now().Add(time.Hour)
		}
		wpid, err := syscall.Wait4(-1, &ws, syscall.WALL, nil)
		if err != nil {
			if err == syscall.EINTR {
				continue
			}
			if err == syscall.ECHILD {
				break
			}
			res.Err = "wait4: " + err.Error()
			break
		}
		if ws.Exited() || ws.Signaled() {
			delete(threads, wpid)
			if wpid == pid {
				mainExited = true
				if ws.Exited() {
					res.Exit = ws.ExitStatus()
				} else {
					res.Exit = -1
					res.Signal = int(ws.Signal())
				}
			}
			continue
		}
		if !ws.Stopped() {
			continue
		}
		ts := threads[wpid]
		if ts == nil {
			ts = &tstate{}
			threads[wpid] = ts
		}
		sig := ws.StopSignal()
		deliver := 0
		switch {
		case sig == syscall.SIGTRAP|0x80:
			if !ts.inSyscall {
				ts.inSyscall = true
				ts.cur = nil
				var regs syscall.PtraceRegs
				if err := syscall.PtraceGetRegs(wpid, &regs); err == nil {
					nr := int(int64(regs.Orig_rax))
					name, known := sysNames[nr]
					if known {
						p := &pending{call: Call{Nr: nr, Name: name}}
						a0, a1, a2, a3 := regs.Rdi, regs.Rsi, regs.Rdx, regs.R10
						_ = a3
						switch name {
						case "openat":
							s := readString(wpid, uintptr(a1))
							if r, ok := rel(s, int(int32(a0))); ok {
								p.call.Path, p.track, p.newFd = r, true, true
							}
						case "open", "creat":
							s := readString(wpid, uintptr(a0))
							if r, ok := rel(s, atFdCwd); ok {
								p.call.Path, p.track, p.newFd = r, true, true
							}
						case "stat", "lstat", "access", "unlink", "rmdir", "truncate", "chmod", "chown", "mkdir", "readlink":
							s := readString(wpid, uintptr(a0))
							if r, ok := rel(s, atFdCwd); ok {
								p.call.Path, p.track = r, true
							}
						case "newfstatat", "unlinkat", "fchmodat", "faccessat", "faccessat2", "statx", "mkdirat", "fchownat", "utimensat", "readlinkat":
							s := readString(wpid, uintptr(a1))
							if s == "" && (name == "newfstatat" || name == "statx") {
								// AT_EMPTY_PATH: fd based
								if fp, ok := fds[int(int32(a0))]; ok {
									p.call.Path, p.call.Fd, p.track = fp, int(int32(a0)), true
								}
							} else if r, ok := rel(s, int(int32(a0))); ok {
								p.call.Path, p.track = r, true
							}
						case "rename":
							s1, s2 := readString(wpid, uintptr(a0)), readString(wpid, uintptr(a1))
							r1, ok1 := rel(s1, atFdCwd)
							r2, ok2 := rel(s2, atFdCwd)
							if ok1 || ok2 {
								p.call.Path, p.call.Path2, p.track = r1, r2, true
							}
						case "renameat", "renameat2", "linkat":
							s1, s2 := readString(wpid, uintptr(a1)), readString(wpid, uintptr(a3))
							r1, ok1 := rel(s1, int(int32(a0)))
							r2, ok2 := rel(s2, int(int32(a2)))
							if ok1 || ok2 {
								p.call.Path, p.call.Path2, p.track = r1, r2, true
							}
						case "symlink", "link":
							s2 := readString(wpid, uintptr(a1))
							if r, ok := rel(s2, atFdCwd); ok {
								p.call.Path, p.track = r, true
							}
						case "symlinkat":
							s2 := readString(wpid, uintptr(a2))
							if r, ok := rel(s2, int(int32(a1))); ok {
								p.call.Path, p.track = r, true
							}
						default: // fd based
							fd := int(int32(a0))
							if fp, ok := fds[fd]; ok {
								p.call.Path, p.call.Fd, p.track = fp, fd, true
								if name == "read" || name == "write" || name == "pread64" || name == "pwrite64" {
									p.call.Len = int(a2)
								}
							}
							if name == "copy_file_range" || name == "sendfile" || name == "splice" {
								// rare: treat as tracked when either fd is tracked
								for _, f := range []int{int(int32(a0)), int(int32(a1)), int(int32(a2))} {
									if fp, ok := fds[f]; ok {
										p.call.Path, p.track = fp, true
									}
								}
							}
						}
						if p.track {
							k := idx
							idx++
							ts.cur = p
							if job.GateDir != "" {
								for _, g := range job.GateAt {
									if g != k {
										continue
									}
									base := filepath.Join(job.GateDir, fmt.Sprintf("%s.", job.GateTag))
									os.WriteFile(base+fmt.Sprintf("at.%d", k), []byte(p.call.String()), 0o644)
									for {
										if _, err := os.Stat(base + fmt.Sprintf("go.%d", k)); err == nil {
											break
										}
										if _, err := os.Stat(base + fmt.Sprintf("kill.%d", k)); err == nil {
											res.Reached = true
											res.Killed = true
											res.Calls = append(res.Calls, p.call)
											killAll()
											break
										}
										if time.Now().After(deadline) {
											res.TimedOut = true
											killAll()
											break
										}
										time.Sleep(300 * time.Microsecond)
									}
								}
							}
							switch job.Mode {
							case "crash":
								if k == job.K {
									res.Reached = true
									if job.Half && p.call.Kind() == "write" && p.call.Len > 1 {
										regs.Rdx = uint64(p.call.Len / 2)
										syscall.PtraceSetRegs(wpid, &regs)
										p.killAfter = true
									} else {
										res.Killed = true
										res.Calls = append(res.Calls, p.call)
										killAll()
									}
								}
							case "signal":
								if k == job.K {
									res.Reached = true
									syscall.Kill(pid, syscall.Signal(job.Sig))
								}
							case "fault":
								hit := k == job.K
								if hit {
									res.Reached = true
									faultKind = p.call.Kind()
								}
								if !hit && job.Forever && k > job.K && faultKind != "" && p.call.Kind() == faultKind {
									hit = true
								}
								en := job.Errno
								if !hit && job.K2 > 0 && k == job.K2 {
									hit = true
									en = job.Errno2
								}
								if hit {
									p.inject = true
									p.errno = en
									regs.Orig_rax = ^uint64(0)
									syscall.PtraceSetRegs(wpid, &regs)
									res.Injected++
								}
							}
						}
					}
				}
			} else {
				ts.inSyscall = false
				if p := ts.cur; p != nil {
					var regs syscall.PtraceRegs
					if err := syscall.PtraceGetRegs(wpid, &regs); err == nil {
						if p.inject {
							regs.Rax = uint64(-int64(p.errno))
							syscall.PtraceSetRegs(wpid, &regs)
						}
						ret := int64(regs.Rax)
						p.call.Ret = ret
						if p.newFd && ret >= 0 {
							fds[int(ret)] = p.call.Path
						}
						if p.call.Name == "close" && ret == 0 && p.call.Fd != 1 {
							delete(fds, p.call.Fd)
						}
					}
					res.Calls = append(res.Calls, p.call)
					if p.killAfter {
						res.Killed = true
						killAll()
					}
					ts.cur = nil
				}
			}
		case sig == syscall.SIGTRAP:
			// ptrace event (clone etc.) or exec trap: nothing to deliver
		case sig == syscall.SIGSTOP:
			// initial stop of an auto-attached thread (or a real SIGSTOP, which gxz never gets)
		default:
			deliver = int(sig)
		}
		syscall.PtraceSyscall(wpid, deliver)
	}
	// reap leftovers
	for {
		if _, err := syscall.Wait4(-1, &ws, syscall.WALL|syscall.WNOHANG, nil); err != nil {
			break
		}
		if len(threads) == 0 {
			break
		}
		break
	}
	return res
}
