package props

import (
	"bytes"
	"fmt"
	"os"
	"os/exec"
	"path/filepath"
	"sort"
	"strconv"
	"strings"
	"syscall"

	"verif/core"
	"verif/ref"
)

// C15 — gxz command line semantics against a reference model of the documented behaviour.

type c15File struct {
	Name    string
	Content string // "plain:<id>", "xz:<id>", "lzma:<id>", "xz-corrupt:<id>", "corpus:<file>"
	Mode    uint32
}

type C15Case struct {
	Files []c15File
	Argv  [][]string // one or more invocations run in sequence (histories)
	// Stdout: what gxz's standard output is. "" a pipe; "file" a regular file; "devnull" the
	// character device /dev/null (not a terminal; what is written there cannot be compared).
	// Single invocations for which the model expects output on stdout are run in all three ways.
	Stdout string `json:",omitempty"`
}

func init() {
	register(&Check{ID: "C15", Level: "model_checking", Run: runC15})
	scenario("C15", "invoke", func(r *core.Run, c core.Case) {
		var p C15Case
		params(c, &p)
		c15Case(r, p, os.Getenv("VERIF_GXZ"))
	})
}

// ---- reference model ----

type mEntry struct {
	format string // "", "xz", "lzma": what the content is
	plain  []byte // decoded content (for format != "") or the bytes themselves
	raw    []byte // actual bytes when known (initial files)
	broken bool   // compressed but corrupt/truncated
	mode   uint32
	link   string // symbolic link to this name in the same directory (content fields describe the target)
}

type mDir map[string]*mEntry

func (d mDir) clone() mDir {
	n := mDir{}
	for k, v := range d {
		c := *v
		n[k] = &c
	}
	return n
}

type mOpts struct {
	stdout, decompress, force, keep bool
	format                          string
}

var boolWords = map[string]bool{"1": true, "t": true, "T": true, "TRUE": true, "true": true, "True": true, "0": true, "f": true, "F": true, "FALSE": true, "false": true, "False": true}

// c15Parse is the documented option syntax: options may appear anywhere before
// "--", single letters may be bundled, -F takes the next argument, the last
// preset wins. ambiguous is set when a file name directly follows a boolean or
// counter option and parses as that option's value (known finding).
func c15Parse(argv []string) (o mOpts, files []string, bad bool, ambiguous bool) {
	o.format = "auto"
	i := 0
	for i < len(argv) {
		a := argv[i]
		i++
		if a == "--" {
			files = append(files, argv[i:]...)
			break
		}
		if len(a) < 2 || a[0] != '-' {
			files = append(files, a)
			continue
		}
		if strings.HasPrefix(a, "--") {
			name := a[2:]
			val := ""
			if k := strings.IndexByte(name, '='); k >= 0 {
				name, val = name[:k], name[k+1:]
			}
			switch name {
			case "keep":
				o.keep = true
			case "stdout":
				o.stdout = true
			case "decompress":
				o.decompress = true
			case "compress":
				o.decompress = false
			case "force":
				o.force = true
			case "quiet", "verbose":
			case "format":
				if val == "" {
					if i >= len(argv) {
						return o, files, true, false
					}
					val = argv[i]
					i++
				}
				o.format = val
			default:
				return o, files, true, false
			}
			// the long spellings take the same optional separate value (known finding)
			if val == "" && i < len(argv) && argv[i] != "--" && (len(argv[i]) == 0 || argv[i][0] != '-') {
				switch name {
				case "keep", "stdout", "decompress", "compress", "force":
					if boolWords[argv[i]] {
						ambiguous = true
					}
				case "quiet", "verbose":
					if _, err := strconv.Atoi(argv[i]); err == nil {
						ambiguous = true
					}
				}
			}
			continue
		}
		for j, c := range a[1:] {
			last := j == len(a)-2
			switch c {
			case 'k':
				o.keep = true
			case 'c':
				o.stdout = true
			case 'd':
				o.decompress = true
			case 'z':
				o.decompress = false
			case 'f':
				o.force = true
			case 'q', 'v':
			case '0', '1', '2', '3', '4', '5', '6', '7', '8', '9':
			case 'F':
				if i >= len(argv) {
					return o, files, true, false
				}
				o.format = argv[i]
				i++
				continue
			default:
				return o, files, true, false
			}
			_ = last
			// an argument that follows and parses as a value of this option
			if i < len(argv) && argv[i] != "--" && (len(argv[i]) == 0 || argv[i][0] != '-') {
				switch c {
				case 'k', 'c', 'd', 'f', 'z':
					if boolWords[argv[i]] {
						ambiguous = true
					}
				case 'q', 'v':
					if _, err := strconv.Atoi(argv[i]); err == nil {
						ambiguous = true
					}
				}
			}
		}
	}
	switch o.format {
	case "xz", "lzma", "auto":
	case "alone":
		o.format = "lzma"
	default:
		bad = true
	}
	if o.format == "auto" && !o.decompress {
		o.format = "xz"
	}
	return
}

// c15Model applies one invocation to the directory model.
func c15Model(argv []string, d mDir) (nd mDir, exitNonZero bool, stdout []*mEntry, ambiguous bool) {
	nd = d.clone()
	o, files, bad, amb := c15Parse(argv)
	if bad {
		return nd, true, nil, amb
	}
	if len(files) == 0 {
		return nd, false, nil, true // stdin mode: not in the alphabet
	}
	for _, name := range files {
		e, ok := nd[name]
		if !ok || name == "" {
			exitNonZero = true
			continue
		}
		if e.link != "" {
			// a symbolic link is no regular file: skipped unless -f is given, in which case the
			// file it points to is processed under the link's name (and the link, not the file, removed)
			t, ok := nd[e.link]
			if !o.force || !ok {
				exitNonZero = true
				continue
			}
			e = t
		}
		var out *mEntry
		target := ""
		if !o.decompress {
			ext, tar := "."+o.format, ".txz"
			if o.format == "lzma" {
				tar = ".tlz"
			}
			if !o.stdout && (strings.HasSuffix(name, ext) || strings.HasSuffix(name, tar)) {
				exitNonZero = true
				continue
			}
			target = name + ext
			src := e.raw
			if src == nil {
				// compressing something the model only knows abstractly: not generated by the alphabet
				src = e.plain
			}
			out = &mEntry{format: o.format, plain: src}
		} else {
			fm := o.format
			if fm == "auto" {
				fm = e.format
			}
			if fm == "" || e.format != fm || e.broken {
				exitNonZero = true
				if o.stdout && e.broken && e.format == fm {
					stdout = append(stdout, &mEntry{plain: e.plain, broken: true})
				}
				continue
			}
			ext, tar := "."+fm, ".txz"
			if fm == "lzma" {
				tar = ".tlz"
			}
			if !o.stdout {
				switch {
				case strings.HasSuffix(name, ext) && len(name) > len(ext):
					target = name[:len(name)-len(ext)]
				case strings.HasSuffix(name, tar) && len(name) > len(tar):
					target = name[:len(name)-len(tar)] + ".tar"
				default:
					exitNonZero = true
					continue
				}
			}
			out = &mEntry{plain: e.plain, raw: e.plain}
		}
		if o.stdout {
			stdout = append(stdout, out)
			continue
		}
		if false {
			_ = out
		}
		if _, exists := nd[target]; exists && !o.force {
			exitNonZero = true
			continue
		}
		// upper bound for the output's permission bits: the statement only forbids bits the input
		// lacked (whether the umask is applied on top is the implementation's business)
		out.mode = e.mode & 0o777
		nd[target] = out
		if !o.keep {
			delete(nd, name)
		}
	}
	return nd, exitNonZero, stdout, amb
}

// ---- contents ----

func c15Content(id string) (raw []byte, e mEntry) {
	i := strings.IndexByte(id, ':')
	kind, pid := id[:i], id[i+1:]
	if kind == "corpus" {
		for _, c := range bindRef(nil) {
			if c.File == pid {
				f := "xz"
				if c.Kind == "lzma" {
					f = "lzma"
				}
				return c.Data, mEntry{format: f, plain: c.Plain, raw: c.Data}
			}
		}
		panic("corpus file not found: " + pid)
	}
	raw = c10Content(id)
	p := c10Plain[pid]
	switch kind {
	case "plain":
		return raw, mEntry{plain: raw, raw: raw}
	case "xz", "lzma":
		return raw, mEntry{format: kind, plain: p, raw: raw}
	case "xz-corrupt", "xz-trunc":
		return raw, mEntry{format: "xz", plain: p, raw: raw, broken: true}
	case "lzma-trunc":
		return raw, mEntry{format: "lzma", plain: p, raw: raw, broken: true}
	}
	panic("content kind " + kind)
}

func decodeAs(format string, b []byte) ([]byte, error) {
	if format == "xz" {
		x := ref.DecodeXZ(b, ref.XZOptions{})
		return x.Out, x.Err
	}
	a := ref.DecodeAlone(b, false)
	if a.Err == nil && a.Trailing != 0 {
		return a.Out, fmt.Errorf("trailing bytes")
	}
	return a.Out, a.Err
}

// ---- execution ----

// c15SymlinkCase judges an invocation whose single operand is a symbolic link (see 3c).
func c15SymlinkCase(r *core.Run, p C15Case, gxz string) {
	cs := core.MkCase("C15", "invoke", p)
	dir, err := os.MkdirTemp("", "verif-c15-")
	if err != nil {
		panic(err)
	}
	defer os.RemoveAll(dir)
	data, link := p.Files[0], p.Files[1]
	raw, de := c15Content(data.Content)
	os.WriteFile(filepath.Join(dir, data.Name), raw, os.FileMode(data.Mode))
	os.Chmod(filepath.Join(dir, data.Name), os.FileMode(data.Mode))
	if err := os.Symlink(data.Name, filepath.Join(dir, link.Name)); err != nil {
		panic(err)
	}
	argv := p.Argv[0]
	o, _, _, _ := c15Parse(argv)
	cmd := exec.Command(gxz, argv...)
	cmd.Dir = dir
	var so, se bytes.Buffer
	cmd.Stdout, cmd.Stderr = &so, &se
	exit := 0
	if runErr := cmd.Run(); runErr != nil {
		ee, ok := runErr.(*exec.ExitError)
		if !ok {
			panic("C15: cannot run gxz: " + runErr.Error())
		}
		exit = ee.ExitCode()
	}
	got := readDir(dir)
	var problems []string
	// the data file is never touched
	if b, ok := got[data.Name]; !ok || !bytes.Equal(b, raw) {
		problems = append(problems, fmt.Sprintf("data file %q changed or removed", data.Name))
	}
	complete := func(b []byte) bool {
		if o.decompress {
			return bytes.Equal(b, de.plain)
		}
		out, err := decodeAs(o.format, b)
		return err == nil && bytes.Equal(out, de.plain)
	}
	produced := false
	for name, b := range got {
		if name == data.Name || name == link.Name {
			continue
		}
		produced = true
		if !complete(b) {
			problems = append(problems, fmt.Sprintf("%q: not the complete output", name))
		}
		if fi, err := os.Stat(filepath.Join(dir, name)); err == nil && uint32(fi.Mode().Perm())&^data.Mode != 0 {
			problems = append(problems, fmt.Sprintf("%q: mode %o grants bits beyond the data file's %o", name, fi.Mode().Perm(), data.Mode))
		}
	}
	if o.stdout {
		produced = so.Len() > 0
		if produced && !complete(so.Bytes()) {
			problems = append(problems, "stdout: not the complete output")
		}
	}
	if (exit == 0) != produced {
		problems = append(problems, fmt.Sprintf("exit status %d although output produced=%v", exit, produced))
	}
	if lb, ok := got[link.Name]; ok && string(lb) != "symlink:"+data.Name {
		problems = append(problems, fmt.Sprintf("%q is no longer a symbolic link to the data file", link.Name))
	} else if !ok && !produced {
		problems = append(problems, "link removed although nothing was produced")
	}
	if len(problems) > 0 {
		sort.Strings(problems)
		r.Violate(cs, "gxz argv "+c15ArgClass(argv)+" symlink → "+c15ProblemClass(problems), fmt.Sprintf("gxz %s in {%s}", strings.Join(argv, " "), c15Files(p.Files)), strings.Join(problems, "; ")+" | stderr: "+firstLine(se.String()), "complete output with at most the data file's permission bits, or an untouched link and a non-zero exit status")
	}
	r.Eval(core.Hash(strings.Join(argv, "\x00"), c15Files(p.Files), exit))
	r.Nontrivial(core.Hash(c15ArgClass(argv), "symlink", produced))
	r.Trace(1)
}

// c15StaleTempCase judges an invocation on one file next to which a stale temporary file of an
// earlier killed run lies (Files[1], marked "stale:<content id>"). The statement does not say whether
// gxz refuses or takes the leftover over; either way: an output, if produced, is complete and has no
// permission bit the input lacks, the exit status is 0 exactly then, and otherwise the input is intact.
func c15StaleTempCase(r *core.Run, p C15Case, gxz string) {
	cs := core.MkCase("C15", "invoke", p)
	dir, err := os.MkdirTemp("", "verif-c15-")
	if err != nil {
		panic(err)
	}
	defer os.RemoveAll(dir)
	in, stale := p.Files[0], p.Files[1]
	raw, ie := c15Content(in.Content)
	os.WriteFile(filepath.Join(dir, in.Name), raw, os.FileMode(in.Mode))
	os.Chmod(filepath.Join(dir, in.Name), os.FileMode(in.Mode))
	sraw, _ := c15Content(stale.Content[len("stale:"):])
	os.WriteFile(filepath.Join(dir, stale.Name), sraw, os.FileMode(stale.Mode))
	os.Chmod(filepath.Join(dir, stale.Name), os.FileMode(stale.Mode))
	argv := p.Argv[0]
	o, _, _, _ := c15Parse(argv)
	cmd := exec.Command(gxz, argv...)
	cmd.Dir = dir
	var so, se bytes.Buffer
	cmd.Stdout, cmd.Stderr = &so, &se
	exit := 0
	if runErr := cmd.Run(); runErr != nil {
		ee, ok := runErr.(*exec.ExitError)
		if !ok {
			panic("C15: cannot run gxz: " + runErr.Error())
		}
		exit = ee.ExitCode()
	}
	got := readDir(dir)
	var problems []string
	produced := false
	for name, b := range got {
		if name == in.Name || name == stale.Name {
			continue
		}
		produced = true
		ok := false
		if o.decompress {
			ok = bytes.Equal(b, ie.plain)
		} else if out, err := decodeAs(o.format, b); err == nil && bytes.Equal(out, ie.plain) {
			ok = true
		}
		if !ok {
			problems = append(problems, fmt.Sprintf("%q: not the complete output", name))
		}
		if fi, err := os.Stat(filepath.Join(dir, name)); err == nil && uint32(fi.Mode().Perm())&^in.Mode != 0 {
			problems = append(problems, fmt.Sprintf("%q: mode %o grants bits beyond the input's %o", name, fi.Mode().Perm(), in.Mode))
		}
	}
	if (exit == 0) != produced {
		problems = append(problems, fmt.Sprintf("exit status %d although output produced=%v", exit, produced))
	}
	if b, ok := got[in.Name]; ok && !bytes.Equal(b, raw) {
		problems = append(problems, "input changed")
	} else if !ok && (!produced || o.keep) {
		problems = append(problems, fmt.Sprintf("%q missing", in.Name))
	}
	if len(problems) > 0 {
		sort.Strings(problems)
		r.Violate(cs, "gxz argv "+c15ArgClass(argv)+" stale-temp → "+c15ProblemClass(problems), fmt.Sprintf("gxz %s in {%s}", strings.Join(argv, " "), c15Files(p.Files)), strings.Join(problems, "; ")+" | stderr: "+firstLine(se.String()), "complete output with at most the input's permission bits, or an untouched input and a non-zero exit status")
	}
	r.Eval(core.Hash(strings.Join(argv, "\x00"), c15Files(p.Files), exit))
	r.Nontrivial(core.Hash(c15ArgClass(argv), "stale-temp", produced))
	r.Trace(1)
}

func c15Case(r *core.Run, p C15Case, gxz string) {
	if len(p.Files) == 2 && strings.HasPrefix(p.Files[1].Content, "symlink:") && len(p.Argv) == 1 {
		c15SymlinkCase(r, p, gxz)
		return
	}
	if len(p.Files) == 2 && strings.HasPrefix(p.Files[1].Content, "stale:") && len(p.Argv) == 1 {
		c15StaleTempCase(r, p, gxz)
		return
	}
	cs := core.MkCase("C15", "invoke", p)
	dir, err := os.MkdirTemp("", "verif-c15-")
	if err != nil {
		panic(err)
	}
	defer os.RemoveAll(dir)
	model := mDir{}
	for _, f := range p.Files {
		if strings.HasPrefix(f.Content, "symlink:") {
			t := f.Content[len("symlink:"):]
			te := *model[t] // the target comes first in the list
			te.link = t
			model[f.Name] = &te
			if err := os.Symlink(t, filepath.Join(dir, f.Name)); err != nil {
				panic(err)
			}
			continue
		}
		raw, e := c15Content(f.Content)
		e.mode = f.Mode
		ee := e
		model[f.Name] = &ee
		path := filepath.Join(dir, f.Name)
		if err := os.WriteFile(path, raw, os.FileMode(f.Mode)); err != nil {
			panic(err)
		}
		os.Chmod(path, os.FileMode(f.Mode))
	}
	var hist []string
	for _, argv := range p.Argv {
		hist = append(hist, "gxz "+strings.Join(argv, " "))
		desc := fmt.Sprintf("%s in {%s}", strings.Join(hist, " ; "), c15Files(p.Files))
		nm, wantFail, wantOut, amb := c15Model(argv, model)
		cmd := exec.Command(gxz, argv...)
		cmd.Dir = dir
		var so, se bytes.Buffer
		cmd.Stdout, cmd.Stderr = &so, &se
		var outFile *os.File
		switch p.Stdout {
		case "file":
			outFile, err = os.CreateTemp("", "verif-c15-stdout-")
			if err != nil {
				panic(err)
			}
			cmd.Stdout = outFile
		case "devnull":
			outFile, err = os.OpenFile("/dev/null", os.O_WRONLY, 0)
			if err != nil {
				panic(err)
			}
			cmd.Stdout = outFile
		}
		cmd.Stdin = nil
		cmd.SysProcAttr = &syscall.SysProcAttr{}
		runErr := cmd.Run()
		if outFile != nil {
			if p.Stdout == "file" {
				b, _ := os.ReadFile(outFile.Name())
				so.Write(b)
				os.Remove(outFile.Name())
			}
			outFile.Close()
			desc += " [stdout: " + p.Stdout + "]"
		}
		exit := 0
		if runErr != nil {
			if ee, ok := runErr.(*exec.ExitError); ok {
				exit = ee.ExitCode()
			} else {
				panic("C15: cannot run gxz: " + runErr.Error())
			}
		}
		site := "gxz argv " + c15ArgClass(argv)
		if p.Stdout != "" {
			site += " stdout=" + p.Stdout
		}
		if amb {
			site = "gxz argv file-name-parses-as-option-value"
		}
		probClass := func(ps []string) string {
			if amb {
				return "not-processed-as-file"
			}
			return c15ProblemClass(ps)
		}
		var problems []string
		if (exit != 0) != wantFail {
			problems = append(problems, fmt.Sprintf("exit status %d, model: non-zero=%v", exit, wantFail))
		}
		if exit < 0 || exit > 2 && exit != 7 {
			problems = append(problems, fmt.Sprintf("abnormal exit %d: %s", exit, firstLine(se.String())))
		}
		// directory
		got := readDir(dir)
		for name, e := range nm {
			b, ok := got[name]
			if !ok {
				problems = append(problems, fmt.Sprintf("%q missing", name))
				continue
			}
			switch {
			case e.link != "":
				if string(b) != "symlink:"+e.link {
					problems = append(problems, fmt.Sprintf("%q: no longer a symbolic link to %q", name, e.link))
				}
				continue
			case e.format == "" || (e.raw != nil && bytes.Equal(b, e.raw)):
				if !bytes.Equal(b, e.raw) {
					problems = append(problems, fmt.Sprintf("%q: content differs (%d bytes, want %d)", name, len(b), len(e.raw)))
				}
			default:
				out, err := decodeAs(e.format, b)
				if err != nil || !bytes.Equal(out, e.plain) {
					problems = append(problems, fmt.Sprintf("%q: not a valid %s file of the expected content (%v)", name, e.format, err))
				} else if s := liblzmaAgrees(map[string]byte{"xz": 'x', "lzma": 'a'}[e.format], 0, b, e.plain); s != "" {
					problems = append(problems, fmt.Sprintf("%q: %s", name, s))
				}
			}
			if fi, err := os.Stat(filepath.Join(dir, name)); err == nil && e.mode != 0 {
				if uint32(fi.Mode().Perm())&^e.mode != 0 && model[name] == nil {
					problems = append(problems, fmt.Sprintf("%q: mode %o grants bits beyond %o", name, fi.Mode().Perm(), e.mode))
				}
			}
		}
		for name := range got {
			if _, ok := nm[name]; !ok {
				problems = append(problems, fmt.Sprintf("unexpected file %q", name))
			}
		}
		// stdout
		if p.Stdout == "" && len(p.Argv) == 1 && len(wantOut) > 0 && !amb {
			// the same invocation with a regular file and with /dev/null as standard output
			for _, k := range []string{"file", "devnull"} {
				q := p
				q.Stdout = k
				defer c15Case(r, q, gxz)
			}
		}
		if p.Stdout != "devnull" && (len(wantOut) > 0 || so.Len() > 0) {
			var wantPlain []byte
			fm := ""
			partial := false
			for _, e := range wantOut {
				if e.broken {
					partial = true
					break
				}
				wantPlain = append(wantPlain, e.plain...)
				fm = e.format
			}
			if partial {
				// a corrupt member streams a prefix of its content before the error is found:
				// only the output of the members before it is determined
				if !bytes.HasPrefix(so.Bytes(), wantPlain) {
					problems = append(problems, fmt.Sprintf("stdout: does not start with the %d bytes of the members before the corrupt one", len(wantPlain)))
				}
			} else if fm == "" {
				if !bytes.Equal(so.Bytes(), wantPlain) {
					problems = append(problems, fmt.Sprintf("stdout: %d bytes, want %d", so.Len(), len(wantPlain)))
				}
			} else if len(wantOut) > 0 {
				out, err := decodeAs(fm, so.Bytes())
				if fm == "lzma" && len(wantOut) > 1 {
					// concatenated .lzma streams are not a single decodable file; compare the first only
					a := ref.DecodeAlone(so.Bytes(), false)
					out, err = a.Out, a.Err
					wantPlain = wantOut[0].plain
				}
				if err != nil || !bytes.Equal(out, wantPlain) {
					problems = append(problems, fmt.Sprintf("stdout: not a valid %s stream of the expected content (%v)", fm, err))
				}
			}
		}
		cls := "agree"
		if len(problems) > 0 {
			cls = "differ"
			sort.Strings(problems)
			r.Violate(cs, site+" → "+probClass(problems), desc, strings.Join(problems, "; ")+" | stderr: "+firstLine(se.String()), fmt.Sprintf("model: exit non-zero=%v, directory {%s}", wantFail, c15ModelNames(nm)))
		}
		r.Trans(fmt.Sprintf("%s fail=%v", c15ArgClass(argv), wantFail))
		r.State(c15DirClass(nm))
		r.Eval(core.Hash(strings.Join(argv, "\x00"), c15Files(p.Files), exit))
		r.Nontrivial(core.Hash(c15ArgClass(argv), wantFail, cls, c15DirClass(nm)))
		if amb || len(problems) > 0 {
			// continue the history from the real state is not possible in the model: stop here
			break
		}
		model = nm
	}
	r.Trace(1)
}

func firstLine(s string) string {
	if i := strings.IndexByte(s, '\n'); i >= 0 {
		s = s[:i]
	}
	if len(s) > 200 {
		s = s[:200]
	}
	return s
}

func c15Files(fs []c15File) string {
	var p []string
	for _, f := range fs {
		p = append(p, fmt.Sprintf("%s=%s(%o)", f.Name, f.Content, f.Mode))
	}
	return strings.Join(p, ", ")
}

func c15ModelNames(d mDir) string {
	var p []string
	for n, e := range d {
		k := "plain"
		if e.format != "" {
			k = e.format
		}
		p = append(p, n+":"+k)
	}
	sort.Strings(p)
	return strings.Join(p, " ")
}

func c15DirClass(d mDir) string {
	c := map[string]int{}
	for _, e := range d {
		k := "plain"
		if e.format != "" {
			k = e.format
		}
		c[k]++
	}
	return fmt.Sprintf("plain=%d xz=%d lzma=%d", c["plain"], c["xz"], c["lzma"])
}

// c15ArgClass abstracts an argument vector: which options, how many files.
func c15ArgClass(argv []string) string {
	o, files, bad, _ := c15Parse(argv)
	if bad {
		return "invalid-options"
	}
	s := "z"
	if o.decompress {
		s = "d"
	}
	if o.keep {
		s += "k"
	}
	if o.stdout {
		s += "c"
	}
	if o.force {
		s += "f"
	}
	return fmt.Sprintf("%s F=%s files=%d", s, o.format, len(files))
}

func c15ProblemClass(ps []string) string {
	var cl []string
	seen := map[string]bool{}
	for _, p := range ps {
		k := "content"
		switch {
		case strings.HasPrefix(p, "exit status"):
			k = "exit-status"
		case strings.HasPrefix(p, "abnormal exit"):
			k = "abnormal-exit"
		case strings.Contains(p, "missing"):
			k = "file-missing"
		case strings.HasPrefix(p, "unexpected file"):
			k = "unexpected-file"
		case strings.Contains(p, "mode"):
			k = "mode"
		case strings.HasPrefix(p, "stdout"):
			k = "stdout"
		}
		if !seen[k] {
			seen[k] = true
			cl = append(cl, k)
		}
	}
	return strings.Join(cl, "+")
}

func runC15(r *core.Run) {
	bindRef(r)
	gxz := os.Getenv("VERIF_GXZ")
	if gxz == "" {
		panic("VERIF_GXZ not set (run through run.sh)")
	}
	syscall.Umask(0o022)
	th := true // both tiers enumerate the full space (about 25 s)
	_ = thorough
	r.Rule = "argument vectors of the real gxz binary: mode {none,-z,-d,-d -z,-dz (-z given after -d forces compression; the opposite order is left out: the usage text does not say which wins)} x -k x -c x -f x -F{none,xz,lzma,alone,auto,invalid} x presets x -q/-v x option placement {before, after the file, bundled, long form, after --} x file-name kinds {plain, with space, leading dash, .xz, .lzma, .txz, .tlz, unknown suffix, boolean-like} x target pre-existing x input mode bits {0600,0644,0400,0666} x content {plain, xz, lzma, corrupt, liblzma-written}; histories: compress then decompress; two-file invocations with every combination of {good, missing, corrupt, other format}. Pairs of dimensions are crossed completely, every single dimension over its full range. Oracle = reference model of the documented semantics (exit class, directory tree with contents decoded by the reference decoder and liblzma, permission bits, stdout). states = directory classes; transitions = (option class, outcome)"
	var cases []C15Case
	add := func(files []c15File, argv ...[]string) { cases = append(cases, C15Case{Files: files, Argv: argv}) }
	pf := func(name string) c15File { return c15File{Name: name, Content: "plain:small", Mode: 0o644} }
	// 1. flag combinations (full cross of mode x k x c x f x F) on one plain and one compressed file, target absent / present
	fmts := [][]string{{}, {"-F", "xz"}, {"-F", "lzma"}, {"-F", "alone"}, {"-F", "auto"}}
	for _, mode := range [][]string{{}, {"-z"}, {"-d"}, {"-d", "-z"}, {"-dz"}} {
		for k := 0; k < 2; k++ {
			for c := 0; c < 2; c++ {
				for f := 0; f < 2; f++ {
					for _, fa := range fmts {
						var args []string
						args = append(args, mode...)
						if k == 1 {
							args = append(args, "-k")
						}
						if c == 1 {
							args = append(args, "-c")
						}
						if f == 1 {
							args = append(args, "-f")
						}
						args = append(args, fa...)
						dec := len(mode) == 1 && mode[0] == "-d"
						for _, pre := range []bool{false, true} {
							if !dec {
								files := []c15File{pf("file.txt")}
								if pre {
									files = append(files, c15File{"file.txt.xz", "plain:other", 0o644}, c15File{"file.txt.lzma", "plain:other", 0o644})
								}
								add(files, append(append([]string{}, args...), "file.txt"))
							} else {
								for _, in := range []c15File{{"file.xz", "xz:small", 0o644}, {"file.lzma", "lzma:small", 0o644}} {
									files := []c15File{in}
									if pre {
										files = append(files, c15File{"file", "plain:other", 0o644})
									}
									add(files, append(append([]string{}, args...), in.Name))
								}
							}
						}
					}
				}
			}
		}
	}
	// 2. presets (all when thorough) x format, round trip history, mode bits
	presets := []string{"-0", "-9"}
	if th {
		presets = []string{"-0", "-1", "-2", "-3", "-4", "-5", "-6", "-7", "-8", "-9"}
	}
	for _, ps := range presets {
		for _, fm := range []string{"xz", "lzma"} {
			for _, mode := range []uint32{0o600, 0o644, 0o400, 0o666} {
				for _, content := range []string{"plain:small", "plain:big"} {
					if content == "plain:big" && mode != 0o644 {
						continue
					}
					add([]c15File{{"data.bin", content, mode}}, []string{ps, "-F", fm, "data.bin"}, []string{"-d", "data.bin." + fm})
					add([]c15File{{"data.bin", content, mode}}, []string{ps, "-k", "-F", fm, "data.bin"}, []string{"-d", "-f", ps, "data.bin." + fm})
				}
			}
		}
	}
	// 3. option placement and spelling
	for _, argv := range [][]string{
		{"-d", "-k", "-f", "a.xz"}, {"-dkf", "a.xz"}, {"a.xz", "-d", "-k"}, {"-d", "a.xz", "-k"}, {"--decompress", "--keep", "a.xz"}, {"-d", "--", "a.xz"},
		{"-d", "--", "-k", "a.xz"}, {"-dk", "--", "a.xz"}, {"-qd", "a.xz"}, {"-d", "-q", "-q", "a.xz"}, {"-dv", "a.xz"}, {"-d", "-vv", "a.xz"}, {"-d9", "a.xz"}, {"-d", "-F", "xz", "a.xz"},
		{"-d", "--format", "xz", "a.xz"}, {"-d", "--format=xz", "a.xz"}, {"-d", "-F", "lzma", "a.xz"}, {"-d", "-F", "bogus", "a.xz"}, {"-dx", "a.xz"}, {"--bogus", "a.xz"}, {"-d", "-F"},
		{"-d", "--stdout", "a.xz"}, {"-d", "--force", "a.xz"}, {"-1", "-9", "-0", "a.xz", "-F", "lzma"},
	} {
		add([]c15File{{"a.xz", "xz:small", 0o644}}, argv)
		add([]c15File{{"a.xz", "xz:small", 0o644}, {"a", "plain:other", 0o644}}, argv)
	}
	// 4. file-name kinds x {compress, decompress}
	// ("-.xz" / "-.lzma" / "-.txz": the name the output gets is "-" / "-.tar", which elsewhere stands for the standard streams)
	names := []string{"plain", "with space", "-dash", "--", "x.xz", "x.lzma", "x.txz", "x.tlz", "x.dat", "x.tar.xz", ".xz", "a.xz.xz", "ünï.txt", "-.xz", "-.lzma", "-.txz"}
	for _, n := range names {
		for _, opts := range [][]string{{}, {"-k"}, {"-F", "lzma"}, {"-d"}, {"-d", "-f"}, {"-d", "-F", "lzma"}, {"-dc"}, {"-c"}} {
			for _, content := range []string{"plain:small", "xz:small", "lzma:small"} {
				argv := append(append([]string{}, opts...), "--", n)
				add([]c15File{{n, content, 0o644}}, argv)
				if n[0] != '-' {
					add([]c15File{{n, content, 0o644}}, append(append([]string{}, opts...), n))
				}
			}
		}
	}
	// boolean-like and numeric names directly after an option (known finding) and after "--"
	for _, n := range []string{"f", "t", "1", "0", "true", "false", "5"} {
		for _, o := range []string{"-k", "-f", "-c", "-v", "-q"} {
			add([]c15File{{n, "plain:small", 0o644}}, []string{o, n})
			add([]c15File{{n, "plain:small", 0o644}}, []string{o, "--", n})
		}
	}
	// file names that begin with digits directly after a counter option (-v, -q take an optional number)
	for _, n := range []string{"2024-report.txt", "1.txt", "7z-notes.md", "0x10.bin", "3"} {
		for _, o := range [][]string{{"-v"}, {"-q"}, {"-vv"}, {"-k", "-v"}, {"--verbose"}} {
			add([]c15File{{n, "plain:small", 0o644}, pf("other.txt")}, append(append([]string{}, o...), n, "other.txt"))
		}
	}
	// 4b. full product: option set x format x name kind x content kind, each also with every
	// name the model would create already present ("target pre-existing", derived from the model)
	pnames := names
	if !th {
		pnames = []string{"plain", "with space", "x.xz", "x.lzma", "x.txz", "x.dat", "max.xz", "data.lzma"}
	} else {
		pnames = append(append([]string{}, names...), "max.xz", "data.lzma", "salt.tlz", "box.txz", "zz.xz.lzma")
	}
	for _, mode := range [][]string{{}, {"-z"}, {"-d"}, {"-d", "-z"}, {"-dz"}} {
		for bits := 0; bits < 8; bits++ {
			for _, fa := range fmts {
				var opts []string
				opts = append(opts, mode...)
				if bits&1 != 0 {
					opts = append(opts, "-k")
				}
				if bits&2 != 0 {
					opts = append(opts, "-c")
				}
				if bits&4 != 0 {
					opts = append(opts, "-f")
				}
				opts = append(opts, fa...)
				for _, n := range pnames {
					for _, content := range []string{"plain:small", "xz:small", "lzma:small"} {
						files := []c15File{{n, content, 0o644}}
						argv := append(append([]string{}, opts...), "--", n)
						add(files, argv)
						// derived: pre-existing targets
						m := mDir{}
						_, e := c15Content(content)
						e.mode = 0o644
						m[n] = &e
						nm, _, _, _ := c15Model(argv, m)
						var pre []c15File
						for name := range nm {
							if _, ok := m[name]; !ok {
								pre = append(pre, c15File{name, "plain:other", 0o600})
							}
						}
						if len(pre) > 0 {
							add(append(files, pre...), argv)
						}
					}
				}
			}
		}
	}
	// 3b. several operands after "--": everything after it is a file name, also names that look like options
	dashy := []string{"-a.txt", "-k", "--keep", "plain", "-c", "-d"}
	for _, n1 := range dashy {
		for _, n2 := range dashy {
			if n1 == n2 {
				continue
			}
			for _, opts := range [][]string{{}, {"-k"}} {
				add([]c15File{pf(n1), pf(n2)}, append(append([]string{}, opts...), "--", n1, n2))
			}
			add([]c15File{pf(n1), pf(n2), pf("third")}, []string{"--", n1, "third", n2})
		}
	}
	for _, n1 := range []string{"-d.xz", "-k.xz", "x.xz", "--force.xz"} {
		for _, n2 := range []string{"-d.xz", "-k.xz", "x.xz", "--force.xz"} {
			if n1 != n2 {
				add([]c15File{{n1, "xz:small", 0o644}, {n2, "xz:small", 0o600}}, []string{"-d", "--", n1, n2})
			}
		}
	}
	// 3c. symbolic links as operands. The statement does not say whether a link is followed (gxz, like
	// xz, refuses without -f and processes the file behind the link under the link's name with -f), so
	// these cases are judged by the clauses that do apply (c15SymlinkCase): an output, if produced, is
	// complete and carries no permission bit the data file lacks; exit 0 exactly when it was produced;
	// the data file is never touched; an unprocessed link stays a link
	for _, mode := range []uint32{0o600, 0o644, 0o400} {
		for _, opts := range [][]string{{}, {"-f"}, {"-kf"}, {"-c"}, {"-cf"}, {"-F", "lzma", "-f"}} {
			add([]c15File{{"data", "plain:small", mode}, {"link", "symlink:data", 0}}, append(append([]string{}, opts...), "link"))
		}
		for _, opts := range [][]string{{"-d"}, {"-df"}, {"-dkf"}, {"-dc"}, {"-dcf"}} {
			add([]c15File{{"data.xz", "xz:small", mode}, {"link.xz", "symlink:data.xz", 0}}, append(append([]string{}, opts...), "link.xz"))
		}
	}
	// 3e. a stale temporary file (left by a killed run) with looser permission bits than the input
	for _, im := range []uint32{0o600, 0o400, 0o640} {
		for _, sm := range []uint32{0o644, 0o666, 0o600} {
			for _, opts := range [][]string{{}, {"-f"}, {"-kf"}, {"-F", "lzma", "-f"}} {
				ext := ".xz"
				if len(opts) == 3 {
					ext = ".lzma"
				}
				add([]c15File{{"secret", "plain:small", im}, {"secret" + ext + ".compress", "stale:plain:big", sm}}, append(append([]string{}, opts...), "secret"))
			}
			for _, opts := range [][]string{{"-d"}, {"-df"}} {
				add([]c15File{{"secret.xz", "xz:small", im}, {"secret.decompress", "stale:plain:big", sm}}, append(append([]string{}, opts...), "secret.xz"))
			}
		}
	}
	// 3d. many operands: the exit status is non-zero when 1, 2, 255, 256, 257 or 512 members fail
	// (missing files) next to one that succeeds
	for _, nf := range []int{1, 2, 255, 256, 257, 512} {
		for _, opts := range [][]string{{}, {"-d"}} {
			argv := append([]string{}, opts...)
			for i := 0; i < nf; i++ {
				argv = append(argv, fmt.Sprintf("missing%03d.xz", i))
			}
			if len(opts) == 0 {
				add([]c15File{pf("real")}, append(argv, "real"))
			} else {
				add([]c15File{{"real.xz", "xz:small", 0o644}}, append(argv, "real.xz"))
			}
		}
	}
	// 5. two-file invocations: every combination of member kinds
	kinds := []c15File{{"g.xz", "xz:small", 0o644}, {"missing.xz", "", 0}, {"c.xz", "xz-corrupt:big", 0o644}, {"o.lzma", "lzma:small", 0o644}, {"t.xz", "xz-trunc:big", 0o644}, {"l.xz", "corpus:text3000-p6.xz", 0o644}}
	for i, a := range kinds {
		for j, b := range kinds {
			if i == j {
				continue
			}
			var files []c15File
			for _, f := range []c15File{a, b} {
				if f.Content != "" {
					files = append(files, f)
				}
			}
			for _, opts := range [][]string{{"-d"}, {"-dk"}, {"-dc"}} {
				add(files, append(append([]string{}, opts...), a.Name, b.Name))
			}
		}
	}
	ck := []c15File{{"p1", "plain:small", 0o644}, {"missing", "", 0}, {"p2.xz", "plain:other", 0o644}, {"p3", "plain:big", 0o600}}
	for i, a := range ck {
		for j, b := range ck {
			if i == j {
				continue
			}
			var files []c15File
			for _, f := range []c15File{a, b} {
				if f.Content != "" {
					files = append(files, f)
				}
			}
			for _, opts := range [][]string{{}, {"-k"}, {"-c"}, {"-F", "lzma"}} {
				add(files, append(append([]string{}, opts...), a.Name, b.Name))
			}
		}
	}
	// 6. xz-utils / liblzma written files are accepted, format detected from content
	n := 0
	for _, e := range bindRef(nil) {
		// the mixed-entropy files (uncompressed chunks followed by state-reset chunks, as xz-utils
		// writes them for text / incompressible / text) are always included
		mixed := strings.HasPrefix(e.File, "mix") && !strings.HasPrefix(e.File, "mix-")
		// multi-stream files (concatenated streams, stream padding) as `xz -c a b` writes them
		multi := strings.HasPrefix(e.File, "multi")
		if e.Len > 80000 && !mixed {
			continue
		}
		n++
		if !th && n%4 != 0 && !mixed && !multi {
			continue
		}
		ext := ".xz"
		if e.Kind == "lzma" {
			ext = ".lzma"
		} else if e.Kind != "xz" {
			continue
		}
		add([]c15File{{"in" + ext, "corpus:" + e.File, 0o644}}, []string{"-d", "in" + ext})
	}
	r.Extra("invocation_cases", len(cases))
	r.Extra("liblzma_second_opinion", liblzmaAvailable())
	r.Sample(cases[3])
	r.Sample(cases[len(cases)/2])
	r.Sample(cases[len(cases)-1])
	r.Parallel(len(cases), "invocations", func(i int) { c15Case(r, cases[i], gxz) })
	r.Assume("umask 022; runs as the harness user (root): permission-denied paths are not reachable via chmod")
}
