package props

import (
	"bytes"
	"fmt"
	"io"
	"sync"

	"github.com/ulikunitz/xz/lzma"

	"verif/core"
	"verif/ref"
)

// Stream is a valid stream with its plaintext, used by the reader-side checks.
type Stream struct {
	Name     string
	Fmt      string // "xz", "lzma2", "lzma"
	Data     []byte
	Plain    []byte
	DictSize uint32 // for lzma2: dictionary size to decode with
	Writer   string // "lib" or "ref" or "liblzma"
	// StreamEnds lists, for multi-stream xz files, the offsets at which a cut
	// leaves a complete valid file (stream ends and 4-byte padding boundaries).
	ValidCuts map[int]bool
}

func mustLibXZ(cfg XZCfg, data []byte, parts ...int) []byte {
	sink, calls, verr, pan := xzWriteExec(XZWCase{Cfg: cfg, Parts: parts}, data)
	if verr != nil || pan != nil {
		panic(fmt.Sprintf("base stream: xz writer failed: %v %v", verr, pan))
	}
	// strip nothing: sink is complete at the first Close; the after-close probes emit nothing on a correct tree
	for _, c := range calls {
		if c.Call == "Close" {
			if c.Err != nil {
				panic("base stream: xz writer Close failed: " + c.Err.Error())
			}
			return sink[:c.Sink]
		}
	}
	panic("base stream: no Close")
}

// L2Step is one call of an LZMA2 writer history.
type L2Step struct {
	Op string // "w" write N bytes of the input, "f" flush, "c" close
	N  int
}

// L2Cfg is the serialisable Writer2Config.
type L2Cfg struct {
	LC, LP, PB int
	Props      bool
	DictCap    int
	BufSize    int
	Matcher    int
	// Pre (configuration history): a Writer2Config variable is filled with Pre and verified, then
	// every field is set to this configuration's values and the writer is created from that variable
	Pre *L2Cfg `json:",omitempty"`
	// Scribble: right after the constructor has returned, the caller overwrites every field of its
	// configuration variable, including the Properties value behind the pointer, and creates and
	// uses a second, unrelated writer from it (a caller that reuses one configuration variable)
	Scribble bool `json:",omitempty"`
}

// open creates the writer the way the case's configuration history prescribes.
func (c L2Cfg) open(sink io.Writer) (*lzma.Writer2, error) {
	cfg := c.build()
	w, err := cfg.NewWriter2(sink)
	if c.Scribble {
		if cfg.Properties != nil {
			if *cfg.Properties == (lzma.Properties{}) {
				*cfg.Properties = lzma.Properties{LC: 1, LP: 1, PB: 1}
			} else {
				*cfg.Properties = lzma.Properties{}
			}
		} else {
			cfg.Properties = &lzma.Properties{LC: 0, LP: 2, PB: 0}
		}
		cfg.DictCap, cfg.BufSize, cfg.Matcher = 5000, 300, 1-cfg.Matcher
		var other sinkBuf
		if w2, e2 := cfg.NewWriter2(&other); e2 == nil {
			w2.Write([]byte("another writer created from the same configuration variable"))
			w2.Close()
		}
	}
	return w, err
}

func (c L2Cfg) build() lzma.Writer2Config {
	if c.Pre == nil {
		return c.cfg()
	}
	w := c.Pre.cfg()
	_ = w.Verify()
	f := c.cfg()
	w.Properties, w.DictCap, w.BufSize, w.Matcher = f.Properties, f.DictCap, f.BufSize, f.Matcher
	return w
}

func (c L2Cfg) cfg() lzma.Writer2Config {
	w := lzma.Writer2Config{DictCap: c.DictCap, BufSize: c.BufSize, Matcher: lzma.MatchAlgorithm(c.Matcher)}
	if c.Props {
		w.Properties = &lzma.Properties{LC: c.LC, LP: c.LP, PB: c.PB}
	}
	return w
}

func mustLibLZMA2(cfg L2Cfg, data []byte, steps []L2Step) []byte {
	var sb sinkBuf
	w, err := cfg.open(&sb)
	if err != nil {
		panic(err)
	}
	rest := data
	closed := false
	for _, s := range steps {
		switch s.Op {
		case "w":
			n := s.N
			if n > len(rest) {
				n = len(rest)
			}
			if _, err := w.Write(rest[:n]); err != nil {
				panic(err)
			}
			rest = rest[n:]
		case "f":
			if err := w.Flush(); err != nil {
				panic(err)
			}
		case "c":
			if err := w.Close(); err != nil {
				panic(err)
			}
			closed = true
		}
	}
	if !closed {
		if _, err := w.Write(rest); err != nil {
			panic(err)
		}
		if err := w.Close(); err != nil {
			panic(err)
		}
	}
	return sb.b
}

// LZCfg is the serialisable lzma.WriterConfig.
type LZCfg struct {
	LC, LP, PB   int
	Props        bool
	DictCap      int
	BufSize      int
	Matcher      int
	SizeInHeader bool
	Size         int64
	EOS          bool
	// Pre: configuration history as for L2Cfg (lzma.WriterConfig.Verify fills defaults in place)
	Pre *LZCfg `json:",omitempty"`
	// Scribble: as for L2Cfg
	Scribble bool `json:",omitempty"`
}

func (c LZCfg) open(sink io.Writer) (*lzma.Writer, error) {
	cfg := c.build()
	w, err := cfg.NewWriter(sink)
	if c.Scribble {
		if cfg.Properties != nil {
			if *cfg.Properties == (lzma.Properties{}) {
				*cfg.Properties = lzma.Properties{LC: 1, LP: 1, PB: 1}
			} else {
				*cfg.Properties = lzma.Properties{}
			}
		} else {
			cfg.Properties = &lzma.Properties{LC: 0, LP: 2, PB: 0}
		}
		cfg.DictCap, cfg.BufSize, cfg.Matcher = 5000, 300, 1-cfg.Matcher
		cfg.SizeInHeader, cfg.Size, cfg.EOSMarker = !cfg.SizeInHeader, 59, !cfg.EOSMarker
		var other sinkBuf
		if w2, e2 := cfg.NewWriter(&other); e2 == nil {
			w2.Write([]byte("another writer created from the same configuration variable"))
			w2.Close()
		}
	}
	return w, err
}

func (c LZCfg) build() lzma.WriterConfig {
	if c.Pre == nil {
		return c.cfg()
	}
	w := c.Pre.cfg()
	_ = w.Verify()
	f := c.cfg()
	w.Properties, w.DictCap, w.BufSize, w.Matcher = f.Properties, f.DictCap, f.BufSize, f.Matcher
	w.SizeInHeader, w.Size, w.EOSMarker = f.SizeInHeader, f.Size, f.EOSMarker
	return w
}

func (c LZCfg) String() string {
	p := "default"
	if c.Props {
		p = fmt.Sprintf("lc%dlp%dpb%d", c.LC, c.LP, c.PB)
	}
	return fmt.Sprintf("{%s dict=%d buf=%d %s sizeInHeader=%v size=%d eos=%v}", p, c.DictCap, c.BufSize, matcherName(c.Matcher), c.SizeInHeader, c.Size, c.EOS)
}

func (c LZCfg) cfg() lzma.WriterConfig {
	w := lzma.WriterConfig{DictCap: c.DictCap, BufSize: c.BufSize, Matcher: lzma.MatchAlgorithm(c.Matcher), SizeInHeader: c.SizeInHeader, Size: c.Size, EOSMarker: c.EOS}
	if c.Props {
		w.Properties = &lzma.Properties{LC: c.LC, LP: c.LP, PB: c.PB}
	}
	return w
}

func mustLibLZMA(cfg LZCfg, data []byte) []byte {
	var sb sinkBuf
	w, err := cfg.open(&sb)
	if err != nil {
		panic(err)
	}
	if _, err := w.Write(data); err != nil {
		panic(err)
	}
	if err := w.Close(); err != nil {
		panic(err)
	}
	return sb.b
}

// refChunked builds an LZMA2 chunk sequence with the reference generator that
// uses every chunk kind: full reset, plain LZMA, state reset, raw, new props,
// raw with dictionary reset, new props again.
func refChunked(text []byte) (lz2 []byte, plain []byte) {
	g := ref.NewLZMA2Gen()
	seg := func(i, n int) []byte {
		a := (i * n) % len(text)
		b := a + n
		if b > len(text) {
			b = len(text)
		}
		return text[a:b]
	}
	addL := func(kind ref.ChunkKind, data []byte, p ref.Props) {
		full := append(append([]byte(nil), g.Win.Buf...), data...)
		ops := greedyOps(full, len(g.Win.Buf))
		if _, err := g.Add(ref.ChunkSpec{Kind: kind, Ops: ops, Props: p}); err != nil {
			panic(err)
		}
	}
	addL(ref.CLZMAFull, seg(0, 40), ref.Props{LC: 3, LP: 0, PB: 2})
	addL(ref.CLZMA, seg(1, 30), ref.Props{})
	addL(ref.CLZMAState, seg(0, 35), ref.Props{})
	g.Add(ref.ChunkSpec{Kind: ref.CRaw, Raw: seg(2, 20)})
	addL(ref.CLZMAProps, seg(1, 45), ref.Props{LC: 0, LP: 2, PB: 0})
	g.Add(ref.ChunkSpec{Kind: ref.CRawReset, Raw: seg(3, 25)})
	addL(ref.CLZMAProps, seg(3, 50), ref.Props{LC: 1, LP: 1, PB: 3})
	g.Add(ref.ChunkSpec{Kind: ref.CEnd})
	return g.Out, g.Plain
}

// greedyOps returns ops for full[start:] with matches reaching back into full[:start].
func greedyOps(full []byte, start int) []ref.Op {
	var ops []ref.Op
	i := start
	for i < len(full) {
		best, bestD := 0, 0
		for j := i - 1; j >= 0 && i-j <= 4000; j-- {
			n := 0
			for i+n < len(full) && n < 273 && full[j+n] == full[i+n] {
				n++
			}
			if n > best {
				best, bestD = n, i-j
			}
		}
		if best >= 3 {
			ops = append(ops, ref.Op{Kind: ref.OpMatch, Len: best, Dist: uint32(bestD)})
			i += best
		} else {
			ops = append(ops, ref.Op{Kind: ref.OpLit, Byte: full[i]})
			i++
		}
	}
	return ops
}

var baseText = textBytes(21, 400)

// readerStreams returns the menu of valid streams for reader-side checks.
// level 0: small set (quick), level 1: extended.
func readerStreams(level int) []Stream {
	var out []Stream
	text := baseText
	addXZ := func(name string, data, plain []byte, wr string) {
		out = append(out, Stream{Name: name, Fmt: "xz", Data: data, Plain: plain, Writer: wr})
	}
	// library-written xz
	addXZ("lib-xz-1block-crc64", mustLibXZ(XZCfg{DictCap: 4096}, text[:120]), text[:120], "lib")
	addXZ("lib-xz-3blocks-crc32", mustLibXZ(XZCfg{DictCap: 4096, BlockSize: 50, Check: 1}, text[:130]), text[:130], "lib")
	addXZ("lib-xz-sha256-2blocks", mustLibXZ(XZCfg{DictCap: 4096, BlockSize: 64, Check: 10}, text[:100]), text[:100], "lib")
	addXZ("lib-xz-nocheck", mustLibXZ(XZCfg{DictCap: 4096, NoCheck: true, BlockSize: 70}, text[:90]), text[:90], "lib")
	// reference-written xz with all chunk kinds and size fields
	lz2, plain := refChunked(text)
	addXZ("ref-xz-allchunks-crc32-sizes", ref.EncodeXZStream(ref.CheckCRC32, []ref.XZBlockSpec{{LZMA2: lz2, Plain: plain, DictCode: 0, CompField: true, UncompField: true}}), plain, "ref")
	l2a := ref.EncodeLZMA2Simple(text[:60], ref.Props{LC: 3, LP: 0, PB: 2}, 25)
	l2b := ref.EncodeLZMA2Simple(text[60:140], ref.Props{LC: 0, LP: 0, PB: 0}, 1000)
	addXZ("ref-xz-2blocks-crc64-extrapad", ref.EncodeXZStream(ref.CheckCRC64, []ref.XZBlockSpec{
		{LZMA2: l2a, Plain: text[:60], DictCode: 2, UncompField: true, ExtraPad: 1},
		{LZMA2: l2b, Plain: text[60:140], DictCode: 0, CompField: true}}), text[:140], "ref")
	if level > 0 {
		addXZ("lib-xz-empty", mustLibXZ(XZCfg{DictCap: 4096}, nil), nil, "lib")
		addXZ("lib-xz-raw-chunks", mustLibXZ(XZCfg{DictCap: 4096, Check: 1}, randBytes(3, 150)), randBytes(3, 150), "lib")
		addXZ("ref-xz-sha256-emptyblock", ref.EncodeXZStream(ref.CheckSHA256, []ref.XZBlockSpec{
			{LZMA2: []byte{0}, Plain: nil, DictCode: 0},
			{LZMA2: l2a, Plain: text[:60], DictCode: 1, CompField: true, UncompField: true}}), text[:60], "ref")
		addXZ("ref-xz-nocheck", ref.EncodeXZStream(ref.CheckNone, []ref.XZBlockSpec{{LZMA2: l2b, Plain: text[60:140], DictCode: 3}}), text[60:140], "ref")
	}
	// multi-stream
	a := mustLibXZ(XZCfg{DictCap: 4096, Check: 1}, text[:40])
	b := ref.EncodeXZStream(ref.CheckCRC64, []ref.XZBlockSpec{{LZMA2: l2a, Plain: text[:60], DictCode: 0}})
	ms := append(append(append(append([]byte(nil), a...), make([]byte, 8)...), b...), make([]byte, 4)...)
	vc := map[int]bool{len(a): true, len(a) + 4: true, len(a) + 8: true, len(a) + 8 + len(b): true}
	out = append(out, Stream{Name: "multi-a-pad8-b-pad4", Fmt: "xz", Data: ms, Plain: append(append([]byte(nil), text[:40]...), text[:60]...), Writer: "lib+ref", ValidCuts: vc})
	if level > 0 {
		// three streams: padding only between the first two, the third follows directly, then 12 bytes
		c := mustLibXZ(XZCfg{DictCap: 4096, Check: 10}, text[40:90])
		m3 := append(append(append(append(append([]byte(nil), a...), make([]byte, 4)...), b...), c...), make([]byte, 12)...)
		e2 := len(a) + 4 + len(b)
		e3 := e2 + len(c)
		vc3 := map[int]bool{len(a): true, len(a) + 4: true, e2: true, e3: true, e3 + 4: true, e3 + 8: true, e3 + 12: true}
		out = append(out, Stream{Name: "multi-a-pad4-b-c-pad12", Fmt: "xz", Data: m3, Plain: append(append(append([]byte(nil), text[:40]...), text[:60]...), text[40:90]...), Writer: "lib+ref", ValidCuts: vc3})
	}

	// raw LZMA2
	add2 := func(name string, data, plain []byte, wr string) {
		out = append(out, Stream{Name: name, Fmt: "lzma2", Data: data, Plain: plain, DictSize: 4096, Writer: wr})
	}
	add2("lib-lzma2-flushes", mustLibLZMA2(L2Cfg{DictCap: 4096}, text[:150], []L2Step{{"w", 40}, {"f", 0}, {"w", 50}, {"f", 0}, {"w", 60}, {"c", 0}}), text[:150], "lib")
	mix := append(append(append([]byte(nil), text[:50]...), randBytes(5, 60)...), text[50:90]...)
	add2("lib-lzma2-raw+lzma", mustLibLZMA2(L2Cfg{DictCap: 4096}, mix, []L2Step{{"w", 50}, {"f", 0}, {"w", 60}, {"f", 0}, {"w", 40}, {"c", 0}}), mix, "lib")
	add2("ref-lzma2-allchunks", lz2, plain, "ref")
	if level > 0 {
		add2("lib-lzma2-empty", mustLibLZMA2(L2Cfg{DictCap: 4096}, nil, nil), nil, "lib")
		add2("lib-lzma2-bt-lc0lp4", mustLibLZMA2(L2Cfg{DictCap: 4096, Props: true, LC: 0, LP: 4, PB: 1, Matcher: 1}, text[:200], nil), text[:200], "lib")
	}
	// classic .lzma, three termination modes
	addA := func(name string, data, plain []byte, wr string) {
		out = append(out, Stream{Name: name, Fmt: "lzma", Data: data, Plain: plain, Writer: wr})
	}
	addA("lib-lzma-eos", mustLibLZMA(LZCfg{DictCap: 4096}, text[:110]), text[:110], "lib")
	addA("lib-lzma-size", mustLibLZMA(LZCfg{DictCap: 4096, Size: 110}, text[:110]), text[:110], "lib")
	addA("lib-lzma-size+eos", mustLibLZMA(LZCfg{DictCap: 4096, Size: 110, EOS: true}, text[:110]), text[:110], "lib")
	// empty content in the three termination modes (the reader's size-0 path)
	addA("lib-lzma-size0", mustLibLZMA(LZCfg{DictCap: 4096, SizeInHeader: true}, nil), nil, "lib")
	addA("lib-lzma-size0+eos", mustLibLZMA(LZCfg{DictCap: 4096, SizeInHeader: true, EOS: true}, nil), nil, "lib")
	addA("lib-lzma-empty-eos", mustLibLZMA(LZCfg{DictCap: 4096}, nil), nil, "lib")
	ops := greedyOps(text[:120], 0)
	for mode, nm := range []string{"eos", "size", "size+eos"} {
		enc, pl, err := ref.EncodeAlone(ref.Props{LC: 8, LP: 4, PB: 4}, 4096, ops, mode != 0, mode != 1)
		if err != nil {
			panic(err)
		}
		if level > 0 || mode == 1 {
			addA("ref-lzma-lc8lp4pb4-"+nm, enc, pl, "ref")
		}
	}
	// sanity: every base stream must be judged valid by the reference
	for _, s := range out {
		var got []byte
		var err error
		switch s.Fmt {
		case "xz":
			r := ref.DecodeXZ(s.Data, ref.XZOptions{})
			got, err = r.Out, r.Err
		case "lzma2":
			r := ref.DecodeLZMA2(s.Data, s.DictSize, false)
			got, err = r.Out, r.Err
			if err == nil && r.Consumed != len(s.Data) {
				err = fmt.Errorf("trailing bytes")
			}
		case "lzma":
			r := ref.DecodeAlone(s.Data, false)
			got, err = r.Out, r.Err
		}
		if err != nil || !bytes.Equal(got, s.Plain) {
			panic(fmt.Sprintf("base stream %s is not valid for the reference decoder: %v (harness or library writer defect; see C02/C07)", s.Name, err))
		}
	}
	return out
}

// libDecode runs the library reader for the stream's format.
func libDecode(format string, data []byte, dict int) (out []byte, err error, proto string, pan *core.PanicInfo) {
	switch format {
	case "xz":
		return xzDecode(data, dict, false)
	case "lzma2":
		return lzma2Decode(data, dict)
	}
	return lzmaDecode(data, dict)
}

// longStreams: streams whose plaintext (12 KB) exceeds the 4096-byte reader
// dictionary, so that output has already been delivered when a late fault or
// cut is met (used with DictCap 4096 and a 16 KiB caller buffer).
func longStreams() []Stream {
	text := textBytes(55, 12000)
	mix := append(append(append([]byte(nil), text[:5000]...), randBytes(55, 3000)...), text[5000:9000]...)
	var out []Stream
	// the last chunk is an uncompressed one that straddles the physical end of the reader's
	// 4097-slot ring buffer (offsets 4097 and 8194 of the output); raw chunks only
	rawtail := append(append([]byte(nil), text[:3000]...), randBytes(56, 3000)...)
	rawonly := randBytes(57, 9000)
	out = append(out,
		Stream{Name: "long-lib-lzma2-rawtail", Fmt: "lzma2", Data: mustLibLZMA2(L2Cfg{DictCap: 4096}, rawtail, []L2Step{{"w", 3000}, {"f", 0}}), Plain: rawtail, DictSize: 4096, Writer: "lib"},
		Stream{Name: "long-lib-xz-rawtail", Fmt: "xz", Data: mustLibXZ(XZCfg{DictCap: 4096, Check: 1}, rawtail, 3000), Plain: rawtail, Writer: "lib"},
		Stream{Name: "long-lib-lzma2-rawonly", Fmt: "lzma2", Data: mustLibLZMA2(L2Cfg{DictCap: 4096}, rawonly, []L2Step{{"w", 2500}, {"f", 0}, {"w", 2500}, {"f", 0}, {"w", 2500}, {"f", 0}}), Plain: rawonly, DictSize: 4096, Writer: "lib"},
	)
	// uncompressed chunks larger than the reader's dictionary (legal: the chunk size limit does not
	// depend on the dictionary size): the reader refills its ring buffer in the middle of one Read
	{
		g := ref.NewLZMA2Gen()
		g.Add(ref.ChunkSpec{Kind: ref.CRawReset, Raw: randBytes(58, 10000)})
		g.Add(ref.ChunkSpec{Kind: ref.CRaw, Raw: randBytes(59, 7001)})
		g.Add(ref.ChunkSpec{Kind: ref.CLZMAProps, Ops: greedyOps(text[:300], 0), Props: ref.Props{LC: 3, LP: 0, PB: 2}})
		g.Add(ref.ChunkSpec{Kind: ref.CRaw, Raw: randBytes(60, 4099)})
		g.Add(ref.ChunkSpec{Kind: ref.CEnd})
		out = append(out,
			Stream{Name: "long-ref-lzma2-bigraw", Fmt: "lzma2", Data: g.Out, Plain: g.Plain, DictSize: 4096, Writer: "ref"},
			Stream{Name: "long-ref-xz-bigraw", Fmt: "xz", Data: ref.EncodeXZStream(ref.CheckCRC32, []ref.XZBlockSpec{{LZMA2: g.Out, Plain: g.Plain, DictCode: 0}}), Plain: g.Plain, Writer: "ref"},
		)
	}
	out = append(out,
		Stream{Name: "long-lib-xz-2blocks", Fmt: "xz", Data: mustLibXZ(XZCfg{DictCap: 4096, BlockSize: 7000, Check: 1}, text), Plain: text, Writer: "lib"},
		Stream{Name: "long-lib-lzma2-mixed", Fmt: "lzma2", Data: mustLibLZMA2(L2Cfg{DictCap: 4096}, mix, []L2Step{{"w", 6000}, {"f", 0}}), Plain: mix, DictSize: 4096, Writer: "lib"},
		Stream{Name: "long-lib-lzma-eos", Fmt: "lzma", Data: mustLibLZMA(LZCfg{DictCap: 4096}, text), Plain: text, Writer: "lib"},
		Stream{Name: "long-lib-lzma-size", Fmt: "lzma", Data: mustLibLZMA(LZCfg{DictCap: 4096, Size: int64(len(text))}, text), Plain: text, Writer: "lib"},
		Stream{Name: "long-lib-lzma-size+eos", Fmt: "lzma", Data: mustLibLZMA(LZCfg{DictCap: 4096, Size: int64(len(text)), EOS: true}, text), Plain: text, Writer: "lib"},
	)
	return out
}

// libDecodeBuf is libDecode with an explicit caller buffer size.
func libDecodeBuf(format string, data []byte, dict, bufSize int) (out []byte, err error, proto string, pan *core.PanicInfo) {
	pan = core.Guard(func() {
		rd, e := openReaderDict(format, bytes.NewReader(data), dict)
		if e != nil {
			err = e
			return
		}
		out, err, proto = readAll(rd, bufSize, 256<<20)
	})
	return
}

// finalOpStreams: small reference-written streams that END in each kind of LZMA operation
// (literal, near / mid / far / maximal match, rep0..rep3, short rep), in the three .lzma
// termination modes, as a raw LZMA2 chunk sequence and inside an .xz block. The last bytes of a
// range-coded stream are consumed by the last operations; which decoding step meets the end of a
// truncated input depends on the final operation (and on the data before it: several variants).
var (
	finalOpOnce sync.Once
	finalOpList []Stream
)

func finalOpStreams() []Stream {
	finalOpOnce.Do(func() {
		m := func(l int, d uint32) ref.Op { return ref.Op{Kind: ref.OpMatch, Len: l, Dist: d} }
		lit := func(b byte) ref.Op { return ref.Op{Kind: ref.OpLit, Byte: b} }
		sufs := []struct {
			name string
			ops  []ref.Op
		}{
			{"lit", []ref.Op{lit('q')}},
			{"match-near", []ref.Op{m(3, 2)}},
			{"match-mid", []ref.Op{m(6, 40)}},
			{"match-far", []ref.Op{m(20, 300)}},
			{"match-273", []ref.Op{m(273, 1)}},
			{"rep0", []ref.Op{m(4, 9), lit('x'), {Kind: ref.OpRep0, Len: 3}}},
			{"shortrep", []ref.Op{m(4, 9), lit('x'), {Kind: ref.OpShortRep}}},
			{"rep1", []ref.Op{m(4, 9), m(3, 17), {Kind: ref.OpRep1, Len: 2}}},
			{"rep2", []ref.Op{m(4, 9), m(3, 17), m(5, 33), {Kind: ref.OpRep2, Len: 4}}},
			{"rep3", []ref.Op{m(4, 9), m(3, 17), m(5, 33), m(2, 65), {Kind: ref.OpRep3, Len: 2}}},
			// long lengths (the high length tree, 18..273) in the last operation
			{"rep0-long", []ref.Op{m(4, 9), lit('x'), {Kind: ref.OpRep0, Len: 25}}},
			{"rep1-long", []ref.Op{m(4, 9), m(3, 17), {Kind: ref.OpRep1, Len: 40}}},
			{"rep2-273", []ref.Op{m(4, 9), m(3, 17), m(5, 33), {Kind: ref.OpRep2, Len: 273}}},
			{"match-high", []ref.Op{m(100, 40)}},
			{"match-dist1-fresh", []ref.Op{m(4, 9), m(3, 17), m(5, 33), m(2, 65), lit('z'), m(7, 1)}},
		}
		pr := ref.Props{LC: 3, LP: 0, PB: 2}
		for v := 0; v < 10; v++ {
			text := textBytes(200+v, 330+v)
			base := ref.GreedyOps(0, text, 4096)
			for _, sf := range sufs {
				ops := append(append([]ref.Op(nil), base...), sf.ops...)
				for _, mode := range []struct {
					n        string
					size, mk bool
				}{{"eos", false, true}, {"size", true, false}, {"size+eos", true, true}} {
					data, plain, err := ref.EncodeAlone(pr, 4096, ops, mode.size, mode.mk)
					if err != nil {
						panic("finalOpStreams: " + err.Error())
					}
					finalOpList = append(finalOpList, Stream{Name: fmt.Sprintf("final-%s-lzma-%s-v%d", sf.name, mode.n, v), Fmt: "lzma", Data: data, Plain: plain, Writer: "ref"})
				}
				lz2, plain, err := encodeOpsLZMA2(ops, pr)
				if err != nil {
					panic("finalOpStreams: " + err.Error())
				}
				finalOpList = append(finalOpList,
					Stream{Name: fmt.Sprintf("final-%s-lzma2-v%d", sf.name, v), Fmt: "lzma2", Data: lz2, Plain: plain, DictSize: 4096, Writer: "ref"},
					Stream{Name: fmt.Sprintf("final-%s-xz-v%d", sf.name, v), Fmt: "xz", Data: ref.EncodeXZStream(ref.CheckCRC32, []ref.XZBlockSpec{{LZMA2: lz2, Plain: plain, DictCode: 0}}), Plain: plain, Writer: "ref"})
			}
		}
	})
	return finalOpList
}

// libPrefixStreams: the library's own classic writer on every prefix of a short text, in the three
// termination modes. How many of the final bytes the range decoder still needs after the last
// decoded bit differs from stream to stream (it depends on the last normalisation); a family of
// several hundred streams covers every such alignment.
var (
	libPrefixOnce sync.Once
	libPrefixList []Stream
)

func libPrefixStreams() []Stream {
	libPrefixOnce.Do(func() {
		text := textBytes(300, 125)
		for n := 0; n <= len(text); n++ {
			for _, m := range []struct {
				name string
				cfg  LZCfg
			}{{"eos", LZCfg{DictCap: 4096, EOS: true}}, {"size", LZCfg{DictCap: 4096, SizeInHeader: true, Size: int64(n)}}, {"size+eos", LZCfg{DictCap: 4096, SizeInHeader: true, Size: int64(n), EOS: true}}} {
				libPrefixList = append(libPrefixList, Stream{Name: fmt.Sprintf("libprefix-%d-lzma-%s", n, m.name), Fmt: "lzma", Data: mustLibLZMA(m.cfg, text[:n]), Plain: text[:n], Writer: "lib"})
			}
		}
	})
	return libPrefixList
}

// walkStreams: three streams (raw LZMA2, .xz, .lzma with size and end marker) built from fixed
// operation walks - every operation kind with trained contexts, unusual properties.
func walkStreams() []Stream {
	var out []Stream
	ops := longWalk(3, 260)
	pr := ref.Props{LC: 1, LP: 2, PB: 3}
	lz2, plain, err := encodeOpsLZMA2(ops, pr)
	if err != nil {
		panic(err)
	}
	out = append(out, Stream{Name: "walk-lzma2", Fmt: "lzma2", Data: lz2, Plain: plain, DictSize: 1 << 16, Writer: "ref"},
		Stream{Name: "walk-xz", Fmt: "xz", Data: ref.EncodeXZStream(ref.CheckCRC32, []ref.XZBlockSpec{{LZMA2: lz2, Plain: plain, DictCode: dictCodeFor(len(plain) + 1)}}), Plain: plain, Writer: "ref"})
	d, plain2, err := ref.EncodeAlone(ref.Props{LC: 8, LP: 0, PB: 4}, 1<<16, longWalk(4, 260), true, true)
	if err != nil {
		panic(err)
	}
	return append(out, Stream{Name: "walk-lzma", Fmt: "lzma", Data: d, Plain: plain2, Writer: "ref"})
}
