package props

import (
	"bytes"
	"fmt"
	"os"
	"path/filepath"
	"sort"
	"strings"
	"sync"
	"sync/atomic"

	"verif/core"
	"verif/ref"
	"verif/sysx"
)

// C10 — gxz never loses data: every file-system call of a run is a crash point
// and a fault point (ptrace stepping of the unmodified binary).

var c10Hangs int32

type c10File struct {
	Name    string
	Content string // content id, see c10Content
	Mode    uint32
}

// C10Scn is one scenario.
type C10Scn struct {
	Name       string
	Args       []string
	Files      []c10File
	Input      string
	Target     string // expected target name; "" = none (stdout or no admissible target)
	Decompress bool
	Format     string
	Keep       bool
	Stdout     bool
	Plain      string   // content id of the user's data in decoded form
	InputOK    bool     // the input can be processed
	ExpectOK   bool     // the fault-free run is expected to succeed
	RecordOnly bool     // judged on the fault-free run only (the family of structural cut points)
	DataFile   string   // the file that holds the user's data when the input is a symbolic link to it ("" = the input itself)
	Extra      []string // further files of a multi-file run (another member and its output): may appear, change or vanish
	EitherExit bool     // the statement does not say whether the fault-free run succeeds (a stale temporary file is in the way): both exit classes are judged by their own rules
}

type C10Case struct {
	Scenario string
	Mode     string // record, crash, fault
	K        int
	Half     bool `json:",omitempty"`
	Errno    int  `json:",omitempty"`
	Forever  bool `json:",omitempty"`
	K2       int  `json:",omitempty"` // second fault point (0 = none; call 0 is never a second point)
	Errno2   int  `json:",omitempty"`
	Sig      int  `json:",omitempty"`
}

func init() {
	register(&Check{ID: "C10", Level: "fault_enumeration", Run: runC10})
	scenario("C10", "pair", func(r *core.Run, c core.Case) {
		var p C10PairCase
		params(c, &p)
		env, err := newC10Env(2)
		if err != nil {
			fmt.Println("C10 replay: cannot start the tracer:", err)
			return
		}
		defer env.close()
		for _, th := range []bool{false, true} {
			for _, s := range c10PairScenarios(th) {
				if s.Name == p.Scenario {
					env.judgePair(r, s, p)
					return
				}
			}
		}
	})
	scenario("C10", "gxz", func(r *core.Run, c core.Case) {
		var p C10Case
		params(c, &p)
		env, err := newC10Env(1)
		if err != nil {
			fmt.Println("C10 replay: cannot start the tracer:", err)
			return
		}
		defer env.close()
		for _, s := range c10Scenarios() {
			if s.Name == p.Scenario {
				rec, _, _ := env.run(s, C10Case{Scenario: s.Name, Mode: "record"})
				env.judge(r, s, p, rec.Calls)
			}
		}
	})
}

var c10Plain = map[string][]byte{
	"small": textBytes(41, 300),
	"big":   append(randBytes(41, 14000), textBytes(42, 6000)...),
	"other": []byte("pre-existing target content\n"),
	"large": textBytes(43, 1000000),
}

func init() {
	// the bytes of a small .xz file as "plain" data (a symbolic link may point at a file that
	// happens to carry the name of the output)
	c10Plain["xzsmall"] = nil // filled lazily in c10Scenarios (needs the reference encoder)
	// content of the two-stream archive "xz2:small"
	c10Plain["small2"] = append(append([]byte(nil), c10Plain["small"]...), c10Plain["small"]...)
}

var c10ContentCache sync.Map

// c10Content returns the bytes for a content id: "plain:<id>", "xz:<id>", "lzma:<id>", "xz-corrupt:<id>", "xz-trunc:<id>", "lzma-trunc:<id>".
func c10Content(id string) []byte {
	if v, ok := c10ContentCache.Load(id); ok {
		return v.([]byte)
	}
	i := strings.IndexByte(id, ':')
	kind, pid := id[:i], id[i+1:]
	p := c10Plain[pid]
	var out []byte
	switch kind {
	case "plain":
		out = p
	case "xz":
		// written by the reference encoder (independent of the library's writer)
		var blocks []ref.XZBlockSpec
		for off := 0; off < len(p) || off == 0; off += 6000 {
			end := off + 6000
			if end > len(p) {
				end = len(p)
			}
			blocks = append(blocks, ref.XZBlockSpec{LZMA2: c10LZMA2(p[off:end]), Plain: p[off:end], DictCode: 8})
			if len(p) == 0 {
				break
			}
		}
		out = ref.EncodeXZStream(ref.CheckCRC64, blocks)
	case "lzma":
		out = mustLibLZMA(LZCfg{DictCap: 1 << 16}, p)
	case "xz-corrupt":
		out = append([]byte(nil), c10Content("xz:"+pid)...)
		out[len(out)/2] ^= 0x10
	case "xz-trunc":
		b := c10Content("xz:" + pid)
		// cut inside the second block header region when there is one, else at 60 %
		out = b[:len(b)*6/10]
	case "lzma-trunc":
		b := c10Content("lzma:" + pid)
		out = b[:len(b)*6/10]
	case "lzmasz":
		out = mustLibLZMA(LZCfg{DictCap: 1 << 16, Size: int64(len(p)), EOS: true}, p)
	case "xz2":
		// two streams with 8 bytes of stream padding between them and 4 after
		a := c10Content("xz:" + pid)
		out = append(append(append(append([]byte(nil), a...), make([]byte, 8)...), a...), make([]byte, 4)...)
	case "symlink":
		// a symbolic link to <pid> (recorded by readDir in this form)
		out = []byte("symlink:" + pid)
	case "cut":
		// "cut:<kind>:<pid>:<k>": the first k bytes of another content
		j := strings.LastIndexByte(pid, ':')
		var k int
		fmt.Sscan(pid[j+1:], &k)
		b := c10Content(pid[:j])
		out = b[:k]
	default:
		panic("unknown content kind " + kind)
	}
	c10ContentCache.Store(id, out)
	return out
}

// c10LZMA2 stores data as raw LZMA2 chunks (valid, cheap to build for any size).
func c10LZMA2(p []byte) []byte {
	g := ref.NewLZMA2Gen()
	first := true
	for len(p) > 0 {
		n := len(p)
		if n > 4000 {
			n = 4000
		}
		k := ref.CRaw
		if first {
			k = ref.CRawReset
		}
		g.Add(ref.ChunkSpec{Kind: k, Raw: p[:n]})
		first = false
		p = p[n:]
	}
	g.Add(ref.ChunkSpec{Kind: ref.CEnd})
	return g.Out
}

func c10Scenarios() []C10Scn {
	var out []C10Scn
	add := func(s C10Scn) { out = append(out, s) }
	f := func(name, content string) c10File { return c10File{Name: name, Content: content, Mode: 0o644} }
	// compress
	for _, fm := range []string{"xz", "lzma"} {
		ext := "." + fm
		fa := []string{}
		if fm == "lzma" {
			fa = []string{"-F", "lzma"}
		}
		a := func(extra ...string) []string { return append(append([]string{}, fa...), extra...) }
		add(C10Scn{Name: "z-" + fm + "-small", Args: a("file"), Files: []c10File{f("file", "plain:small")}, Input: "file", Target: "file" + ext, Format: fm, Plain: "small", InputOK: true, ExpectOK: true})
		add(C10Scn{Name: "z-" + fm + "-big", Args: a("data.bin"), Files: []c10File{f("data.bin", "plain:big")}, Input: "data.bin", Target: "data.bin" + ext, Format: fm, Plain: "big", InputOK: true, ExpectOK: true})
		add(C10Scn{Name: "z-" + fm + "-k", Args: a("-k", "file"), Files: []c10File{f("file", "plain:small")}, Input: "file", Target: "file" + ext, Format: fm, Keep: true, Plain: "small", InputOK: true, ExpectOK: true})
		add(C10Scn{Name: "z-" + fm + "-target-exists", Args: a("file"), Files: []c10File{f("file", "plain:small"), f("file"+ext, "plain:other")}, Input: "file", Target: "file" + ext, Format: fm, Plain: "small", InputOK: true, ExpectOK: false})
		add(C10Scn{Name: "z-" + fm + "-f-target-exists", Args: a("-f", "file"), Files: []c10File{f("file", "plain:small"), f("file"+ext, "plain:other")}, Input: "file", Target: "file" + ext, Format: fm, Plain: "small", InputOK: true, ExpectOK: true})
	}
	add(C10Scn{Name: "z-xz-c", Args: []string{"-c", "file"}, Files: []c10File{f("file", "plain:small")}, Input: "file", Format: "xz", Keep: true, Stdout: true, Plain: "small", InputOK: true, ExpectOK: true})
	add(C10Scn{Name: "z-xz-kf-target-exists", Args: []string{"-kf", "file"}, Files: []c10File{f("file", "plain:small"), f("file.xz", "plain:other")}, Input: "file", Target: "file.xz", Format: "xz", Keep: true, Plain: "small", InputOK: true, ExpectOK: true})
	add(C10Scn{Name: "z-xz-already-suffixed", Args: []string{"g.xz"}, Files: []c10File{f("g.xz", "plain:small")}, Input: "g.xz", Format: "xz", Plain: "small", InputOK: false, ExpectOK: false})
	// -z given after -d forces compression (format left at its default)
	add(C10Scn{Name: "z-xz-d-z", Args: []string{"-d", "-z", "file"}, Files: []c10File{f("file", "plain:small")}, Input: "file", Target: "file.xz", Format: "xz", Plain: "small", InputOK: true, ExpectOK: true})
	add(C10Scn{Name: "z-xz-dzk", Args: []string{"-dzk", "file"}, Files: []c10File{f("file", "plain:small")}, Input: "file", Target: "file.xz", Format: "xz", Keep: true, Plain: "small", InputOK: true, ExpectOK: true})
	add(C10Scn{Name: "z-xz-name-with-space", Args: []string{"--", "a b"}, Files: []c10File{f("a b", "plain:small")}, Input: "a b", Target: "a b.xz", Format: "xz", Plain: "small", InputOK: true, ExpectOK: true})
	// decompress
	add(C10Scn{Name: "d-xz-small", Args: []string{"-d", "file.xz"}, Files: []c10File{f("file.xz", "xz:small")}, Input: "file.xz", Target: "file", Decompress: true, Format: "xz", Plain: "small", InputOK: true, ExpectOK: true})
	add(C10Scn{Name: "d-xz-big", Args: []string{"-d", "data.xz"}, Files: []c10File{f("data.xz", "xz:big")}, Input: "data.xz", Target: "data", Decompress: true, Format: "xz", Plain: "big", InputOK: true, ExpectOK: true})
	add(C10Scn{Name: "d-xz-k", Args: []string{"-dk", "file.xz"}, Files: []c10File{f("file.xz", "xz:small")}, Input: "file.xz", Target: "file", Decompress: true, Format: "xz", Keep: true, Plain: "small", InputOK: true, ExpectOK: true})
	add(C10Scn{Name: "d-xz-corrupt", Args: []string{"-d", "data.xz"}, Files: []c10File{f("data.xz", "xz-corrupt:big")}, Input: "data.xz", Target: "data", Decompress: true, Format: "xz", Plain: "big", InputOK: false, ExpectOK: false})
	add(C10Scn{Name: "d-xz-truncated", Args: []string{"-d", "data.xz"}, Files: []c10File{f("data.xz", "xz-trunc:big")}, Input: "data.xz", Target: "data", Decompress: true, Format: "xz", Plain: "big", InputOK: false, ExpectOK: false})
	add(C10Scn{Name: "d-xz-truncated-f", Args: []string{"-d", "-f", "data.xz"}, Files: []c10File{f("data.xz", "xz-trunc:big")}, Input: "data.xz", Target: "data", Decompress: true, Format: "xz", Plain: "big", InputOK: false, ExpectOK: false})
	add(C10Scn{Name: "d-lzma-truncated", Args: []string{"-d", "file.lzma"}, Files: []c10File{f("file.lzma", "lzma-trunc:small")}, Input: "file.lzma", Target: "file", Decompress: true, Format: "lzma", Plain: "small", InputOK: false, ExpectOK: false})
	// decoded prefix larger than the reader dictionary of preset 0 (256 KiB): output has been
	// delivered and written before the truncation is met
	add(C10Scn{Name: "d-lzma-truncated-large", Args: []string{"-d", "-0", "big.lzma"}, Files: []c10File{f("big.lzma", "lzma-trunc:large")}, Input: "big.lzma", Target: "big", Decompress: true, Format: "lzma", Plain: "large", InputOK: false, ExpectOK: false})
	add(C10Scn{Name: "d-xz-target-exists", Args: []string{"-d", "file.xz"}, Files: []c10File{f("file.xz", "xz:small"), f("file", "plain:other")}, Input: "file.xz", Target: "file", Decompress: true, Format: "xz", Plain: "small", InputOK: true, ExpectOK: false})
	add(C10Scn{Name: "d-xz-f-target-exists", Args: []string{"-d", "-f", "file.xz"}, Files: []c10File{f("file.xz", "xz:small"), f("file", "plain:other")}, Input: "file.xz", Target: "file", Decompress: true, Format: "xz", Plain: "small", InputOK: true, ExpectOK: true})
	// two concatenated streams with stream padding: a valid archive, decoded to both contents
	add(C10Scn{Name: "d-xz-two-streams", Args: []string{"-d", "both.xz"}, Files: []c10File{f("both.xz", "xz2:small")}, Input: "both.xz", Target: "both", Decompress: true, Format: "xz", Plain: "small2", InputOK: true, ExpectOK: true})
	add(C10Scn{Name: "d-lzma-small", Args: []string{"-d", "file.lzma"}, Files: []c10File{f("file.lzma", "lzma:small")}, Input: "file.lzma", Target: "file", Decompress: true, Format: "lzma", Plain: "small", InputOK: true, ExpectOK: true})
	add(C10Scn{Name: "d-txz", Args: []string{"-d", "a.txz"}, Files: []c10File{f("a.txz", "xz:small")}, Input: "a.txz", Target: "a.tar", Decompress: true, Format: "xz", Plain: "small", InputOK: true, ExpectOK: true})
	add(C10Scn{Name: "d-unknown-suffix", Args: []string{"-d", "f.dat"}, Files: []c10File{f("f.dat", "xz:small")}, Input: "f.dat", Decompress: true, Format: "xz", Plain: "small", InputOK: false, ExpectOK: false})
	add(C10Scn{Name: "d-f-unknown-suffix", Args: []string{"-d", "-f", "f.dat"}, Files: []c10File{f("f.dat", "xz:small")}, Input: "f.dat", Decompress: true, Format: "xz", Plain: "small", InputOK: false, ExpectOK: false})
	add(C10Scn{Name: "d-f-no-suffix", Args: []string{"-d", "-f", "plainname"}, Files: []c10File{f("plainname", "xz:small")}, Input: "plainname", Decompress: true, Format: "xz", Plain: "small", InputOK: false, ExpectOK: false})
	add(C10Scn{Name: "d-xz-c", Args: []string{"-dc", "file.xz"}, Files: []c10File{f("file.xz", "xz:small")}, Input: "file.xz", Decompress: true, Format: "xz", Keep: true, Stdout: true, Plain: "small", InputOK: true, ExpectOK: true})
	add(C10Scn{Name: "d-xz-kf", Args: []string{"-d", "-k", "-f", "file.xz"}, Files: []c10File{f("file.xz", "xz:small"), f("file", "plain:other")}, Input: "file.xz", Target: "file", Decompress: true, Format: "xz", Keep: true, Plain: "small", InputOK: true, ExpectOK: true})
	// family of structural cut points: the archive ends at the first byte of every structural
	// element (and one byte into it) - headers, block data, padding, check, index, footer, stream
	// padding, a following stream. Every such file is unprocessable: exit non-zero, input intact,
	// nothing under the target name. Judged on the fault-free run.
	for _, fam := range []struct{ id, ext, format, plain string }{
		{"xz:big", ".xz", "xz", "big"}, {"xz2:small", ".xz", "xz", "small"}, {"lzma:small", ".lzma", "lzma", "small"}, {"lzmasz:small", ".lzma", "lzma", "small"}} {
		for _, k := range c10Cuts(fam.id) {
			add(C10Scn{Name: fmt.Sprintf("d-cut-%s@%d", fam.id, k), Args: []string{"-d", "arch" + fam.ext}, Files: []c10File{f("arch"+fam.ext, fmt.Sprintf("cut:%s:%d", fam.id, k))},
				Input: "arch" + fam.ext, Target: "arch", Decompress: true, Format: fam.format, Plain: fam.plain, InputOK: false, ExpectOK: false, RecordOnly: true})
		}
	}
	// a stale temporary file (left by a killed earlier run) that is longer than the new output sits
	// where this run wants to create its own: whether the run refuses or replaces it is not stated,
	// but success needs a complete target, failure an untouched input
	add(C10Scn{Name: "z-xz-stale-temp", Args: []string{"file"}, Files: []c10File{f("file", "plain:small"), f("file.xz.compress", "plain:big")}, Input: "file", Target: "file.xz", Format: "xz", Plain: "small", InputOK: true, ExpectOK: true, EitherExit: true})
	add(C10Scn{Name: "z-lzma-f-stale-temp", Args: []string{"-F", "lzma", "-f", "file"}, Files: []c10File{f("file", "plain:small"), f("file.lzma.compress", "plain:big")}, Input: "file", Target: "file.lzma", Format: "lzma", Plain: "small", InputOK: true, ExpectOK: true, EitherExit: true})
	add(C10Scn{Name: "d-xz-stale-temp", Args: []string{"-d", "file.xz"}, Files: []c10File{f("file.xz", "xz:small"), f("file.decompress", "plain:big")}, Input: "file.xz", Target: "file", Decompress: true, Format: "xz", Plain: "small", InputOK: true, ExpectOK: true, EitherExit: true})
	add(C10Scn{Name: "d-xz-kf-stale-temp", Args: []string{"-dkf", "file.xz"}, Files: []c10File{f("file.xz", "xz:small"), f("file.decompress", "xz:big")}, Input: "file.xz", Target: "file", Decompress: true, Format: "xz", Keep: true, Plain: "small", InputOK: true, ExpectOK: true, EitherExit: true})
	// multi-file runs: an earlier member succeeds, the judged member cannot be processed - nothing an
	// earlier member leaves behind (success flags, options, buffers) may touch the later one's input
	add(C10Scn{Name: "z-two-files-second-target-exists", Args: []string{"first", "file"}, Files: []c10File{f("first", "plain:other"), f("file", "plain:small"), f("file.xz", "plain:other")},
		Input: "file", Target: "file.xz", Format: "xz", Plain: "small", InputOK: true, ExpectOK: false, Extra: []string{"first", "first.xz", "first.xz.compress"}})
	add(C10Scn{Name: "d-two-files-second-truncated", Args: []string{"-d", "good.xz", "data.xz"}, Files: []c10File{f("good.xz", "xz:small"), f("data.xz", "xz-trunc:big")},
		Input: "data.xz", Target: "data", Decompress: true, Format: "xz", Plain: "big", InputOK: false, ExpectOK: false, Extra: []string{"good.xz", "good", "good.decompress"}})
	add(C10Scn{Name: "d-two-files-second-unknown-suffix", Args: []string{"-d", "good.xz", "f.dat"}, Files: []c10File{f("good.xz", "xz:small"), f("f.dat", "xz:small")},
		Input: "f.dat", Decompress: true, Format: "xz", Plain: "small", InputOK: false, ExpectOK: false, Extra: []string{"good.xz", "good", "good.decompress"}})
	// symbolic links as operands (gxz, like xz, refuses them without -f and processes the file behind
	// the link under the link's name with -f): the data behind the link must never be lost - also
	// when the link points at the very file that carries the output's name
	c10Plain["xzsmall"] = c10Content("xz:small")
	add(C10Scn{Name: "z-xz-symlink-refused", Args: []string{"link"}, Files: []c10File{f("data", "plain:small"), f("link", "symlink:data")}, Input: "link", DataFile: "data", Target: "link.xz", Format: "xz", Plain: "small", InputOK: false, ExpectOK: false})
	add(C10Scn{Name: "z-xz-f-symlink", Args: []string{"-f", "link"}, Files: []c10File{f("data", "plain:small"), f("link", "symlink:data")}, Input: "link", DataFile: "data", Target: "link.xz", Format: "xz", Plain: "small", InputOK: true, ExpectOK: true, EitherExit: true})
	add(C10Scn{Name: "z-xz-f-symlink-to-target-name", Args: []string{"-f", "report"}, Files: []c10File{f("report.xz", "xz:small"), f("report", "symlink:report.xz")}, Input: "report", DataFile: "report.xz", Target: "report.xz", Format: "xz", Plain: "xzsmall", InputOK: true, ExpectOK: true, EitherExit: true})
	add(C10Scn{Name: "d-xz-f-symlink", Args: []string{"-d", "-f", "link.xz"}, Files: []c10File{f("data.xz", "xz:small"), f("link.xz", "symlink:data.xz")}, Input: "link.xz", DataFile: "data.xz", Target: "link", Decompress: true, Format: "xz", Plain: "small", InputOK: true, ExpectOK: true, EitherExit: true})
	// operands whose output name is "-" (the name that elsewhere stands for the standard streams) or begins with a dash
	add(C10Scn{Name: "d-xz-dash-target", Args: []string{"-d", "--", "-.xz"}, Files: []c10File{f("-.xz", "xz:small")}, Input: "-.xz", Target: "-", Decompress: true, Format: "xz", Plain: "small", InputOK: true, ExpectOK: true})
	add(C10Scn{Name: "d-lzma-dash-target-k", Args: []string{"-dk", "--", "-.lzma"}, Files: []c10File{f("-.lzma", "lzma:small")}, Input: "-.lzma", Target: "-", Decompress: true, Format: "lzma", Keep: true, Plain: "small", InputOK: true, ExpectOK: true})
	add(C10Scn{Name: "d-xz-dash-target-truncated", Args: []string{"-d", "--", "-.xz"}, Files: []c10File{f("-.xz", "xz-trunc:big")}, Input: "-.xz", Target: "-", Decompress: true, Format: "xz", Plain: "big", InputOK: false, ExpectOK: false})
	add(C10Scn{Name: "z-xz-dash-name", Args: []string{"--", "-n"}, Files: []c10File{f("-n", "plain:small")}, Input: "-n", Target: "-n.xz", Format: "xz", Plain: "small", InputOK: true, ExpectOK: true})
	add(C10Scn{Name: "d-bare-suffix", Args: []string{"-d", ".xz"}, Files: []c10File{f(".xz", "xz:small")}, Input: ".xz", Decompress: true, Format: "xz", Plain: "small", InputOK: false, ExpectOK: false})
	return out
}

// c10Cuts lists the structural cut points of a content: the first byte of every structural
// element and one byte into it, the last byte, and - for two streams - the offsets 1..11 into
// the second stream header; offsets at which the remaining prefix is itself a complete valid
// file (end of a stream, stream padding in multiples of four) are left out.
func c10Cuts(id string) []int {
	b := c10Content(id)
	format := "xz"
	if strings.HasPrefix(id, "lzma") {
		format = "lzma"
	}
	sm := newSiteMap(Stream{Fmt: format, Data: b})
	set := map[int]bool{1: true, len(b) - 1: true}
	for k := 1; k < len(b); k++ {
		if sm.at(k) != sm.at(k-1) {
			set[k] = true
			set[k+1] = true
		}
	}
	if strings.HasPrefix(id, "xz2:") {
		a := len(c10Content("xz:" + id[4:]))
		for d := 1; d <= 11; d++ {
			set[a+8+d] = true
		}
		for _, v := range []int{a, a + 4, a + 8, 2*a + 8, 2*a + 12} {
			delete(set, v)
		}
		for d := 1; d < 12; d++ {
			if d%4 != 0 {
				set[a+d] = true
			}
		}
	}
	var out []int
	for k := range set {
		if k > 0 && k < len(b) {
			out = append(out, k)
		}
	}
	sort.Ints(out)
	return out
}

type c10Env struct {
	pool *sysx.Pool
	gxz  string
	tmp  string
}

func newC10Env(workers int) (*c10Env, error) {
	gxz := os.Getenv("VERIF_GXZ")
	if gxz == "" {
		return nil, fmt.Errorf("VERIF_GXZ not set (run through run.sh)")
	}
	if _, err := os.Stat(gxz); err != nil {
		return nil, err
	}
	pool, err := sysx.NewPool(workers)
	if err != nil {
		return nil, err
	}
	tmp, err := os.MkdirTemp("", "verif-c10-")
	if err != nil {
		return nil, err
	}
	return &c10Env{pool: pool, gxz: gxz, tmp: tmp}, nil
}

func (e *c10Env) close() {
	e.pool.Close()
	os.RemoveAll(e.tmp)
}

type dirState map[string][]byte

func readDir(dir string) dirState {
	st := dirState{}
	es, _ := os.ReadDir(dir)
	for _, e := range es {
		if e.Type()&os.ModeSymlink != 0 {
			// a symbolic link is recorded as such (it may dangle)
			t, _ := os.Readlink(filepath.Join(dir, e.Name()))
			st[e.Name()] = []byte("symlink:" + t)
			continue
		}
		b, err := os.ReadFile(filepath.Join(dir, e.Name()))
		if err == nil {
			st[e.Name()] = b
		}
	}
	return st
}

func (st dirState) names() string {
	var n []string
	for k, v := range st {
		n = append(n, fmt.Sprintf("%s(%dB)", k, len(v)))
	}
	sort.Strings(n)
	return strings.Join(n, " ")
}

// run executes one traced run in a fresh copy of the scenario directory.
func (e *c10Env) run(s C10Scn, c C10Case) (sysx.Result, dirState, []byte) {
	dir, err := os.MkdirTemp(e.tmp, "s-")
	if err != nil {
		panic(err)
	}
	defer os.RemoveAll(dir)
	work := filepath.Join(dir, "d")
	os.Mkdir(work, 0o755)
	for _, f := range s.Files {
		if strings.HasPrefix(f.Content, "symlink:") {
			if err := os.Symlink(f.Content[len("symlink:"):], filepath.Join(work, f.Name)); err != nil {
				panic(err)
			}
			continue
		}
		if err := os.WriteFile(filepath.Join(work, f.Name), c10Content(f.Content), os.FileMode(f.Mode)); err != nil {
			panic(err)
		}
	}
	job := sysx.Job{Argv: append([]string{e.gxz}, s.Args...), Dir: work, Mode: c.Mode, K: c.K, Half: c.Half, Errno: c.Errno, Forever: c.Forever, K2: c.K2, Errno2: c.Errno2, Sig: c.Sig, StdoutFile: filepath.Join(dir, "stdout")}
	res, err := e.pool.Run(job)
	if err != nil {
		panic("C10: tracer worker failed: " + err.Error())
	}
	if res.Err != "" {
		panic("C10: tracer error: " + res.Err)
	}
	stdout, _ := os.ReadFile(filepath.Join(dir, "stdout"))
	return res, readDir(work), stdout
}

// complete reports whether b is the complete output for the scenario.
func (s C10Scn) complete(b []byte) bool {
	plain := c10Plain[s.Plain]
	if s.Decompress {
		return bytes.Equal(b, plain)
	}
	if s.Format == "xz" {
		x := ref.DecodeXZ(b, ref.XZOptions{})
		return x.Err == nil && bytes.Equal(x.Out, plain)
	}
	a := ref.DecodeAlone(b, false)
	return a.Err == nil && bytes.Equal(a.Out, plain) && a.Trailing == 0
}

func (s C10Scn) initial(name string) []byte {
	for _, f := range s.Files {
		if f.Name == name {
			return c10Content(f.Content)
		}
	}
	return nil
}

func c10Errname(e int) string {
	switch e {
	case 28:
		return "ENOSPC"
	case 5:
		return "EIO"
	case 13:
		return "EACCES"
	}
	return fmt.Sprint(e)
}

func (e *c10Env) judge(r *core.Run, s C10Scn, c C10Case, rec []sysx.Call) {
	cs := core.MkCase("C10", "gxz", c)
	res, st, stdout := e.run(s, c)
	phase := "end"
	if c.K < len(rec) {
		phase = rec[c.K].Kind() + "(" + c10Role(s, rec[c.K]) + ")"
	}
	site := fmt.Sprintf("gxz %s", s.Name)
	desc := fmt.Sprintf("gxz %s in {%s}; %s at file-system call %d of %d: %s", strings.Join(s.Args, " "), c10Files(s), c.Mode, c.K, len(rec), phase)
	if c.Mode == "fault" {
		desc += fmt.Sprintf(" fails with %s (forever=%v)", c10Errname(c.Errno), c.Forever)
	}
	if res.TimedOut {
		atomic.AddInt32(&c10Hangs, 1)
		r.Violate(cs, site+" → hang@"+phase, desc, "no exit within 20 s", "termination")
		return
	}
	// the user's data: the input file, or - when the input is a symbolic link - the file behind it
	dataName := s.Input
	if s.DataFile != "" {
		dataName = s.DataFile
	}
	in0 := s.initial(dataName)
	inNow, dataThere := st[dataName]
	inputIntact := dataThere && bytes.Equal(inNow, in0)
	_, inThere := st[s.Input]
	if s.DataFile != "" {
		// the link itself must not be retargeted or replaced by something else
		if l, ok := st[s.Input]; ok && !bytes.Equal(l, s.initial(s.Input)) {
			inputIntact = false
		}
	}
	var tgtNow []byte
	tgtThere := false
	if s.Target != "" {
		tgtNow, tgtThere = st[s.Target]
	}
	pre := s.initial(s.Target)
	tgtComplete := tgtThere && s.complete(tgtNow)
	observed := fmt.Sprintf("exit=%d killed=%v injected=%d dir={%s}", res.Exit, res.Killed, res.Injected, st.names())
	outcome := "ok"
	// (1) at every instant the data exists in one complete form
	dataSafe := inputIntact || (s.InputOK && tgtComplete && s.Target != s.Input)
	if !dataSafe {
		r.Violate(cs, site+" → data-lost@"+phase, desc, observed, "input intact, or complete output under the (different) target name")
		outcome = "data-lost"
	}
	if res.Killed || c.Mode == "crash" && res.Exit == -1 {
		r.Eval(core.Hash(s.Name, "killed", st.names()))
		r.Nontrivial(core.Hash(s.Name, "killed", st.names()))
		return
	}
	// (2) finished runs
	tmpLeft := ""
	for n := range st {
		if n != s.Input && n != s.Target && s.initial(n) == nil && c10Role(s, sysx.Call{Path: n}) == "temp" {
			tmpLeft = n
		}
	}
	unlinkFault := c.Mode == "fault" && res.Injected > 0 && c.K < len(rec) && rec[c.K].Kind() == "unlink"
	if c.Mode == "fault" && c.K2 > 0 && c.K2 < len(rec) && rec[c.K2].Kind() == "unlink" {
		unlinkFault = true
	}
	if c.K2 > 0 {
		// after the first fault the call sequence differs from the recording: the second
		// point may be any call; a temp file may remain if its removal was the one hit
		unlinkFault = unlinkFault || res.Injected > 1
	}
	if c.Mode == "signal" && res.Signal != 0 {
		// died from the signal's default action (handler not installed at that moment): killed
		r.Eval(core.Hash(s.Name, "signal-killed", st.names()))
		r.Nontrivial(core.Hash(s.Name, "signal-killed", st.names()))
		return
	}
	if tmpLeft != "" && !unlinkFault {
		r.Violate(cs, site+" → temp-left@"+phase, desc, observed, "no temporary file remains after a run that was not killed")
		outcome = "temp-left"
	}
	for n := range st {
		extra := false
		for _, x := range s.Extra {
			if x == n {
				extra = true
			}
		}
		if n != s.Input && n != s.Target && n != tmpLeft && s.initial(n) == nil && !extra {
			r.Violate(cs, site+" → unexpected-file@"+phase, desc, observed, "only input/target names")
		}
	}
	if c.Mode == "signal" && res.Exit != 0 {
		// interrupted: invariants only (data safe: checked above; no temp file: checked above)
		if !inputIntact && !(s.InputOK && tgtComplete) {
			r.Violate(cs, site+" → interrupted-run-lost-data@"+phase, desc, observed, "input intact or complete target")
		}
		r.Eval(core.Hash(s.Name, "interrupted", res.Exit, st.names()))
		r.Nontrivial(core.Hash(s.Name, "interrupted", res.Exit, st.names()))
		return
	}
	if res.Exit == 0 {
		switch {
		case !s.InputOK:
			r.Violate(cs, site+" → exit0-although-unprocessable", desc, observed, "non-zero exit status")
			outcome = "exit0-bad-input"
		case s.Stdout:
			if !s.complete(stdout) {
				r.Violate(cs, site+" → exit0-stdout-incomplete@"+phase, desc, observed+fmt.Sprintf(" stdout=%dB", len(stdout)), "complete output on stdout")
			}
			if !inputIntact {
				r.Violate(cs, site+" → -c-removed-input", desc, observed, "input kept")
			}
		default:
			if !tgtComplete {
				r.Violate(cs, site+" → exit0-target-incomplete@"+phase, desc, observed, "complete output under the target name")
				outcome = "exit0-incomplete"
			}
			if s.Keep != inThere {
				r.Violate(cs, site+" → input-removal-wrong@"+phase, desc, observed, fmt.Sprintf("input present: %v", s.Keep))
			}
		}
		if c.Mode == "fault" && res.Injected > 0 && c.K < len(rec) {
			switch rec[c.K].Kind() {
			case "read":
				// a transient read error that is retried successfully loses nothing (the output is
				// checked for completeness above); a persistent one must surface
				if c.Forever {
					r.Violate(cs, site+" → exit0-despite-persistently-failing-read("+c10Role(s, rec[c.K])+")", desc, observed, "non-zero exit status")
				}
			case "write", "close", "rename", "unlink", "open":
				// a stat of the target that fails is legitimately ignored with -f; a failing call on
				// something that is neither the input, the target nor the temporary file (e.g. a
				// best-effort sync of the directory after the output is in place) may be ignored as
				// well: the completeness of the result is checked above. Everything else must surface.
				if role := c10Role(s, rec[c.K]); role == "other" || role == "" {
					r.Count("ignored_fault_on_unrelated_path", 1)
					break
				}
				r.Violate(cs, site+" → exit0-despite-failing-"+rec[c.K].Kind()+"("+c10Role(s, rec[c.K])+")", desc, observed, "non-zero exit status")
				outcome = "fault-masked"
			}
		}
	} else {
		outcome = "failed"
		// (when a symbolic link points at the file that carries the output's name, putting the
		// complete output in place replaces that file: the data is then safe in its new form)
		if !inputIntact && !(s.DataFile != "" && s.DataFile == s.Target && tgtComplete) {
			r.Violate(cs, site+" → failed-run-touched-input@"+phase, desc, observed, "input byte-identical")
		}
		if tgtThere && !tgtComplete && !(pre != nil && bytes.Equal(tgtNow, pre)) {
			r.Violate(cs, site+" → partial-target@"+phase, desc, observed, "no partial file under the target name")
		}
		if c.Mode == "record" && s.ExpectOK && !s.EitherExit {
			r.Violate(cs, site+" → fault-free-run-fails", desc, observed, "exit 0")
		}
	}
	if c.Mode == "record" && !s.ExpectOK && res.Exit == 0 && s.InputOK && !s.EitherExit {
		r.Violate(cs, site+" → unexpected-success", desc, observed, "non-zero exit (target exists without -f)")
	}
	h := core.Hash(s.Name, outcome, res.Exit, st.names())
	r.Eval(h)
	r.Nontrivial(h)
}

// c10Role names what a call acts on in scenario terms.
func c10Role(s C10Scn, c sysx.Call) string {
	role := func(p string) string {
		switch {
		case p == "":
			return ""
		case p == s.Input:
			return "input"
		case p == s.Target && s.Target != "":
			return "target"
		case strings.HasSuffix(p, ".compress") || strings.HasSuffix(p, ".decompress"):
			return "temp"
		case p == "." || p == ".." || strings.HasSuffix(p, "/"):
			return "other"
		}
		for _, x := range s.Extra {
			if x == p {
				return "other"
			}
		}
		if s.initial(p) == nil {
			// a name the run invented (neither input, target nor a file that was there before): its
			// temporary file, whatever the naming scheme
			return "temp"
		}
		return "other"
	}
	if c.Path2 != "" {
		return role(c.Path) + "→" + role(c.Path2)
	}
	return role(c.Path)
}

func c10Files(s C10Scn) string {
	var p []string
	for _, f := range s.Files {
		p = append(p, f.Name+"="+f.Content)
	}
	return strings.Join(p, ", ")
}

func runC10(r *core.Run) {
	bindRef(r)
	th := thorough(r)
	env, err := newC10Env(r.Workers)
	if err != nil {
		r.CapHit("ptrace stepper unavailable: " + err.Error())
		r.Rule = "ptrace unavailable"
		r.Sample("none")
		return
	}
	defer env.close()
	r.Rule = "for each scenario {compress,decompress} x {xz,lzma} x flags {none,-k,-f,-c,-kf} x names {plain, with space, known suffix, .txz, unknown suffix, no suffix, bare suffix} x inputs {valid small, valid multi-write, corrupt, truncated} x target pre-existing, plus the family of archives cut at every structural boundary (multi-block, two streams with padding, .lzma with and without size) judged on the fault-free run: the ordered list of system calls touching the scenario directory is recorded twice (must be identical); then EVERY call k is a crash point (SIGKILL before it; for writes also after half of the bytes) and a fault point (errno menu per call kind x {once, from k on}); oracle on the resulting directory, exit status and stdout. non-trivial = distinct (scenario, outcome, exit, directory listing)"
	scns := c10Scenarios()
	if false {
		// quick: a subset of the scenarios (all of them when thorough)
		keep := map[string]bool{"z-xz-small": true, "z-xz-big": true, "z-lzma-small": true, "z-xz-k": true, "z-xz-f-target-exists": true, "z-xz-target-exists": true, "z-xz-c": true,
			"d-xz-small": true, "d-xz-big": true, "d-xz-corrupt": true, "d-xz-truncated": true, "d-xz-truncated-f": true, "d-lzma-truncated": true, "d-xz-f-target-exists": true, "d-lzma-small": true, "d-txz": true,
			"d-f-unknown-suffix": true, "d-f-no-suffix": true, "d-lzma-truncated-large": true, "d-unknown-suffix": true, "d-xz-c": true, "d-bare-suffix": true, "z-xz-name-with-space": true, "d-xz-k": true}
		var q []C10Scn
		for _, s := range scns {
			if keep[s.Name] {
				q = append(q, s)
			}
		}
		scns = q
	}
	type job struct {
		s   C10Scn
		c   C10Case
		rec []sysx.Call
	}
	var jobs []job
	var mu sync.Mutex
	totalCalls := 0
	r.Parallel(len(scns), "recording", func(i int) {
		s := scns[i]
		if s.RecordOnly {
			mu.Lock()
			jobs = append(jobs, job{s, C10Case{Scenario: s.Name, Mode: "record"}, nil})
			mu.Unlock()
			return
		}
		rec1, _, _ := env.run(s, C10Case{Scenario: s.Name, Mode: "record"})
		rec2, _, _ := env.run(s, C10Case{Scenario: s.Name, Mode: "record"})
		// the two recordings must agree in the sequence of (call, role of its paths); invented names
		// (a temporary file with a random suffix) are compared by their role, not by their spelling
		sig := func(cs []sysx.Call) string {
			var p []string
			for _, c := range cs {
				p = append(p, c.Kind()+"("+c10Role(s, c)+")")
			}
			return strings.Join(p, ";")
		}
		if sig(rec1.Calls) != sig(rec2.Calls) {
			fmt.Printf("NONDETERMINISM: scenario %s: recorded call lists differ\n  %s\n  %s\n", s.Name, sig(rec1.Calls), sig(rec2.Calls))
			r.CapHit("nondeterministic call list in scenario " + s.Name + " (skipped)")
			return
		}
		var js []job
		js = append(js, job{s, C10Case{Scenario: s.Name, Mode: "record"}, rec1.Calls})
		n := len(rec1.Calls)
		for k := 0; k <= n; k++ {
			js = append(js, job{s, C10Case{Scenario: s.Name, Mode: "crash", K: k}, rec1.Calls})
			if k < n && rec1.Calls[k].Kind() == "write" {
				js = append(js, job{s, C10Case{Scenario: s.Name, Mode: "crash", K: k, Half: true}, rec1.Calls})
			}
			if k == n {
				break
			}
			var errnos []int
			switch rec1.Calls[k].Kind() {
			case "write":
				errnos = []int{28, 5}
			case "read", "close", "stat":
				errnos = []int{5}
			case "open":
				errnos = []int{13, 28}
			case "rename", "unlink":
				errnos = []int{13}
			default:
				errnos = []int{5}
			}
			for _, en := range errnos {
				for _, fe := range []bool{false, true} {
					js = append(js, job{s, C10Case{Scenario: s.Name, Mode: "fault", K: k, Errno: en, Forever: fe}, rec1.Calls})
				}
			}
		}
		if th || true { // both tiers: SIGINT before every call and all pairs of faults (about 15 s)
			for k := 0; k <= n; k++ {
				js = append(js, job{s, C10Case{Scenario: s.Name, Mode: "signal", K: k, Sig: 2}, rec1.Calls})
			}
			// two independent faults (deviation bound 2): every pair k < k2 with one errno each
			for k := 0; k < n; k++ {
				for k2 := k + 1; k2 < n; k2++ {
					e1, e2 := 5, 5
					if rec1.Calls[k].Kind() == "write" {
						e1 = 28
					}
					if rec1.Calls[k2].Kind() == "unlink" || rec1.Calls[k2].Kind() == "rename" {
						e2 = 13
					}
					js = append(js, job{s, C10Case{Scenario: s.Name, Mode: "fault", K: k, Errno: e1, K2: k2, Errno2: e2}, rec1.Calls})
				}
			}
		}
		mu.Lock()
		jobs = append(jobs, js...)
		totalCalls += n
		if len(rec1.Calls) > 0 && s.Name == "z-xz-small" {
			r.Sample(map[string]interface{}{"scenario": s.Name, "recorded_calls": sig(rec1.Calls)})
		}
		mu.Unlock()
		r.Trace(1)
	})
	r.Extra("scenarios", len(scns))
	r.Extra("recorded_fs_calls", totalCalls)
	r.Extra("traced_runs", len(jobs)+2*len(scns))
	r.Sample(map[string]interface{}{"case": "d-xz-big: kill before call 9 (rename temp→target)"})
	r.Parallel(len(jobs), "crash and fault points", func(i int) {
		if atomic.LoadInt32(&c10Hangs) >= 3 {
			// every hanging run costs the 20 s time-out: three reported hangs are enough
			r.CapHit("enumeration cut short after three runs that did not terminate (reported as violations)")
			return
		}
		j := jobs[i]
		env.judge(r, j.s, j.c, j.rec)
	})
	// two gxz instances on the same file (beyond the statement's quantifier, which speaks of one run;
	// the invariant "the data exists in one complete form" is checked all the same)
	c10Pairs(r, env, r.Workers)
	r.Assume("process kill, not power loss: unsynced data is outside the property; file-system semantics of the sandbox's /tmp")
	r.Assume("trusted: kernel ptrace; the child runs with GOMAXPROCS=1 GOGC=off for a deterministic call list")
}
