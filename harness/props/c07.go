package props

import (
	"bytes"
	"fmt"
	"sync"
	"sync/atomic"

	"github.com/ulikunitz/xz/lzma"

	"verif/core"
	"verif/ref"
)

// C07 — .lzma interoperability: writer side (shared with C06, judged by the
// reference decoder + liblzma) and reader side (generated and liblzma streams).

type C07Case struct {
	Kind    string  // "ops", "corpus", "liblzma"
	Fill    int     `json:",omitempty"`
	Syms    []OpSym `json:",omitempty"`
	Code    int     `json:",omitempty"` // properties code
	Mode    int     // 0 marker only, 1 size only, 2 size + marker
	DictCap int     `json:",omitempty"`
	File    string  `json:",omitempty"`
	Shape   []Seg   `json:",omitempty"`
	Enc     []int   `json:",omitempty"`
	// Src: kind of source (sourceOf); Drain: how the caller takes the data out (drainOf); Pre: number of
	// bytes taken with one Read call before the rest is drained in that way
	Src   int `json:",omitempty"`
	Drain int `json:",omitempty"`
	Pre   int `json:",omitempty"`
}

var modeNames = []string{"eos", "size", "size+eos"}

func init() {
	register(&Check{ID: "C07", Level: "model_checking", Run: runC07})
	scenario("C07", "lzmaread", func(r *core.Run, c core.Case) {
		var p C07Case
		params(c, &p)
		c07Read(r, p)
	})
}

func c07Judge(r *core.Run, p C07Case, data, plain []byte, site, desc string) {
	cs := core.MkCase("C07", "lzmaread", p)
	a := ref.DecodeAlone(data, false)
	if a.Err != nil || !bytes.Equal(a.Out, plain) {
		panic(fmt.Sprintf("C07 harness error: reference decoder rejects a valid stream (%s): %v", desc, a.Err))
	}
	out, err, proto, pan := lzmaDecode(data, p.DictCap)
	if p.Src != 0 || p.Drain != 0 || p.Pre != 0 {
		pan = core.Guard(func() {
			var rd *lzma.Reader
			rd, err = lzma.ReaderConfig{DictCap: p.DictCap}.NewReader(sourceOf(p.Src, data))
			if err != nil {
				return
			}
			var head []byte
			if p.Pre > 0 {
				head = make([]byte, p.Pre)
				var n int
				n, err = rd.Read(head)
				head = head[:n]
				if err != nil {
					out = head
					return
				}
			}
			out, err, proto = drainOf(rd, p.Drain, 4096, 256<<20)
			out = append(head, out...)
		})
		desc += fmt.Sprintf("; source: %s; %d bytes taken by one Read, the rest drained by %s", sourceKindNames[p.Src], p.Pre, drainModeNames[p.Drain])
	}
	cls := errClass(err)
	switch {
	case pan != nil:
		r.Violate(cs, "lzmaR valid-stream "+site+" → panic@"+pan.Site(), desc, pan.Value+" | "+pan.Stack, "decodes")
	case proto != "":
		r.Violate(cs, "lzmaR valid-stream "+site+" → protocol", desc, proto, "decodes")
	case cls != "EOF":
		r.Violate(cs, "lzmaR valid-stream "+site+" → rejected", desc, fmt.Sprintf("%d bytes then %s; stream %s", len(out), errStr(err), short(data)), fmt.Sprintf("%d bytes then io.EOF", len(plain)))
	case !bytes.Equal(out, plain):
		r.Violate(cs, "lzmaR valid-stream "+site+" → wrong-bytes", desc, fmt.Sprintf("first difference at %d of %d", firstDiff(out, plain), len(out)), "reference output")
	}
	r.Trace(1)
	r.Eval(core.Hash(data, p.DictCap))
	r.Nontrivial(core.Hash(site, cls, len(plain) > 0))
}

var (
	c07TextOnce sync.Once
	c07TextO    []ref.Op
)

func c07TextOps() []ref.Op {
	c07TextOnce.Do(func() {
		in := append(append(append([]byte(nil), textBytes(88, 400)...), randBytes(88, 120)...), textBytes(89, 180)...)
		c07TextO = ref.GreedyOps(0, in, 4096)
	})
	return c07TextO
}

func c07Read(r *core.Run, p C07Case) {
	switch p.Kind {
	case "ops":
		a := newAbs()
		var ops []ref.Op
		all := append(append([]OpSym(nil), fillPrefix(p.Fill)...), p.Syms...)
		for i, s := range all {
			st := a.st
			op, ok := a.step(s)
			if !ok {
				panic("C07: illegal symbol")
			}
			if i >= len(all)-len(p.Syms) {
				r.Trans(fmt.Sprintf("st%d --%s", st, op.Kind))
				r.State(fmt.Sprintf("st%d", st))
			}
			ops = append(ops, op)
		}
		pr, _ := ref.PropsFromCode(byte(p.Code))
		data, plain, err := ref.EncodeAlone(pr, 1<<16, ops, p.Mode != 0, p.Mode != 1)
		if err != nil {
			panic(err)
		}
		r.Trans("terminate:" + modeNames[p.Mode] + fmt.Sprintf(" empty=%v", len(plain) == 0))
		c07Judge(r, p, data, plain, "mode="+modeNames[p.Mode], fmt.Sprintf("fill(%d) %s props code %d (%v) mode %s DictCap %d", p.Fill, symsString(p.Syms), p.Code, pr, modeNames[p.Mode], p.DictCap))
	case "runs":
		// literal 'B', then a run of Fill x 'A' (literal + matches of 273 bytes at distance 1), a tail:
		// decoded with a 4 KiB window, the maximal matches arrive at every phase of the ring buffer
		ops := []ref.Op{{Kind: ref.OpLit, Byte: 'B'}, {Kind: ref.OpLit, Byte: 'A'}}
		for n := p.Fill - 1; n > 0; {
			l := n
			if l > 273 {
				l = 273
			}
			if l == 1 {
				ops = append(ops, ref.Op{Kind: ref.OpLit, Byte: 'A'})
			} else {
				ops = append(ops, ref.Op{Kind: ref.OpMatch, Len: l, Dist: 1})
			}
			n -= l
		}
		ops = append(ops, ref.Op{Kind: ref.OpLit, Byte: 'c'})
		pr, _ := ref.PropsFromCode(byte(p.Code))
		data, plain, err := ref.EncodeAlone(pr, 4096, ops, p.Mode != 0, p.Mode != 1)
		if err != nil {
			panic(err)
		}
		c07Judge(r, p, data, plain, "long-runs", fmt.Sprintf("'B', run of %d x 'A' (matches of 273 at distance 1), 'c'; header dictionary 4096, mode %s, ReaderConfig.DictCap %d", p.Fill, modeNames[p.Mode], p.DictCap))
	case "phase":
		// two literals and 14 maximal matches fill the 4 KiB window up to 272 free bytes (the decoder
		// stops and waits for the caller); the second filling starts with Fill literals and goes on
		// with maximal matches: over Fill = 0..272 a maximal match arrives at every amount of free
		// space, in a ring buffer whose write index has wrapped while its read index has not
		ops := []ref.Op{{Kind: ref.OpLit, Byte: 'B'}, {Kind: ref.OpLit, Byte: 'A'}}
		for k := 0; k < 14; k++ {
			ops = append(ops, ref.Op{Kind: ref.OpMatch, Len: 273, Dist: 1})
		}
		for k := 0; k < p.Fill; k++ {
			ops = append(ops, ref.Op{Kind: ref.OpLit, Byte: byte('a' + k%7)})
		}
		for k := 0; k < 33; k++ {
			ops = append(ops, ref.Op{Kind: ref.OpMatch, Len: 273, Dist: 7})
		}
		ops = append(ops, ref.Op{Kind: ref.OpLit, Byte: 'c'})
		pr, _ := ref.PropsFromCode(byte(p.Code))
		data, plain, err := ref.EncodeAlone(pr, 4096, ops, p.Mode != 0, p.Mode != 1)
		if err != nil {
			panic(err)
		}
		c07Judge(r, p, data, plain, "match-phases", fmt.Sprintf("2 literals, 14 maximal matches, %d literals, 33 maximal matches, 'c'; header dictionary 4096, mode %s, ReaderConfig.DictCap %d", p.Fill, modeNames[p.Mode], p.DictCap))
	case "walk":
		pr, _ := ref.PropsFromCode(byte(p.Code))
		data, plain, err := ref.EncodeAlone(pr, 1<<20, longWalk(p.Fill, 3000), p.Mode != 0, p.Mode != 1)
		if err != nil {
			panic(err)
		}
		c07Judge(r, p, data, plain, "long-walk", fmt.Sprintf("long operation walk seed %d (3000 operations), props code %d (%v) mode %s", p.Fill, p.Code, pr, modeNames[p.Mode]))
	case "text":
		// a literal-rich text coded greedily: every literal context is used many times, so the
		// choice of the literal sub-coder (lc, lp, position) matters once the tables are trained
		pr, _ := ref.PropsFromCode(byte(p.Code))
		data, plain, err := ref.EncodeAlone(pr, 1<<16, c07TextOps(), p.Mode != 0, p.Mode != 1)
		if err != nil {
			panic(err)
		}
		c07Judge(r, p, data, plain, "trained-literals", fmt.Sprintf("700 bytes of mixed text and binary, greedy operations, props code %d (%v) mode %s", p.Code, pr, modeNames[p.Mode]))
	case "corpus":
		for _, e := range bindRef(nil) {
			if e.File == p.File {
				c07Judge(r, p, e.Data, e.Plain, "liblzma-corpus", fmt.Sprintf("corpus file %s DictCap %d", e.File, p.DictCap))
			}
		}
	case "liblzma":
		data := buildShape(p.Shape)
		enc, ok := liblzmaEncode('a', byte(p.Enc[0]), 0, p.Enc[1], p.Enc[2], p.Enc[3], uint32(p.Enc[4]), data)
		if !ok {
			r.Count("liblzma_encode_unavailable", 1)
			return
		}
		c07Judge(r, p, enc, data, "liblzma-fresh", fmt.Sprintf("liblzma FORMAT_ALONE %s enc=%v", shapeString(p.Shape), p.Enc))
	}
}

func runC07(r *core.Run) {
	corpus := bindRef(r)
	th := thorough(r)
	r.Rule = "writer side: the C06 space (a)-(c) restricted to lc+lp<=4, every stream judged by the reference .lzma decoder (properties byte, dictionary size >= max distance, size/marker mode truthful) and by liblzma; reader side: all legal operation sequences (depth d) x three termination modes x 4 property codes, a fixed op list x all 225 property codes x 3 modes x 2 DictCaps, a literal-rich 700-byte input x all 225 codes x 2 modes, fixed long operation walks (3000 operations) x all 225 codes x 3 modes, zero-length content in all modes x all codes, after state-macro prefixes, the liblzma corpus and fresh FORMAT_ALONE encodings; the fixed families again through sources with short reads / data together with io.EOF / bufio and drained by io.Copy, also after a first Read call of 1 / 7 / 5000 bytes. states = coder states; transitions = (state, op kind) and termination-mode steps; non-trivial = distinct (family, outcome, empty?)"
	// writer side
	wcases := lzmaWCases(r, "C07")
	var kept []LZWCase
	for _, c := range wcases {
		if c.Cfg.Props && c.Cfg.LC+c.Cfg.LP > 4 {
			continue
		}
		kept = append(kept, c)
	}
	r.Extra("writer_cases", len(kept))
	r.Parallel(len(kept), "writer side", func(i int) { lzmaWriteCase(r, "C07", kept[i]) })
	// reader side
	type job struct {
		fill  int
		head  []OpSym
		depth int
		code  int
	}
	var jobs []job
	d0 := 3
	if th {
		d0 = 4
	}
	codes := []int{93, 0, 224, 8} // lc3lp0pb2, all zero, lc8lp4pb4, lc8lp0pb0
	for _, code := range codes {
		dd := d0
		if code == 224 {
			dd = 2 // 6 MB literal table per decode (cost bound)
		}
		for d := 0; d <= dd; d++ {
			if d < 3 {
				jobs = append(jobs, job{depth: d, code: code})
				continue
			}
			enumSyms(nil, opAlphabet(false), 1, func(ops []ref.Op, suf []OpSym) {
				jobs = append(jobs, job{head: suf, depth: d - 1, code: code})
			})
		}
		if code != 224 {
			jobs = append(jobs, job{fill: 4096, depth: 1, code: code}, job{fill: 4097, depth: 1, code: code}, job{fill: 127, depth: 2, code: code})
		}
	}
	var n int64
	r.Parallel(len(jobs), "reader side: operation sequences", func(i int) {
		j := jobs[i]
		pre := append(append([]OpSym(nil), fillPrefix(j.fill)...), j.head...)
		enumSyms(pre, opAlphabet(j.fill > 0), j.depth, func(ops []ref.Op, suf []OpSym) {
			for mode := 0; mode < 3; mode++ {
				c07Read(r, C07Case{Kind: "ops", Fill: j.fill, Syms: append(append([]OpSym(nil), j.head...), suf...), Code: j.code, Mode: mode, DictCap: 4096})
				atomic.AddInt64(&n, 1)
			}
		})
	})
	fixed := []OpSym{{K: ref.OpLit, B: 'a'}, {K: ref.OpLit, B: 0x80}, {K: ref.OpLit, B: 0xFF}, {K: ref.OpMatch, Len: 9, Dist: 2}, {K: ref.OpLit, B: 'b'}, {K: ref.OpShortRep},
		{K: ref.OpMatch, Len: 18, Dist: 5}, {K: ref.OpRep1, Len: 2}, {K: ref.OpLit, B: 0x7f}, {K: ref.OpRep2, Len: 3}, {K: ref.OpMatch, Len: 2, Dist: -1}, {K: ref.OpRep3, Len: 2}, {K: ref.OpRep0, Len: 273}, {K: ref.OpLit, B: 0xC3}}
	var cases []C07Case
	for code := 0; code < 225; code++ {
		for mode := 0; mode < 3; mode++ {
			for _, dc := range []int{4096, 1 << 20} {
				cases = append(cases, C07Case{Kind: "ops", Fill: 40, Syms: fixed, Code: code, Mode: mode, DictCap: dc})
			}
			cases = append(cases, C07Case{Kind: "ops", Code: code, Mode: mode, DictCap: 4096}) // zero-length content
			if mode < 2 {
				cases = append(cases, C07Case{Kind: "text", Code: code, Mode: mode, DictCap: 4096})
			}
			// two of the eight fixed long walks per (code, mode), all eight over the three modes
			for _, seed := range []int{(code + mode) % 8, (code + mode + 3) % 8} {
				cases = append(cases, C07Case{Kind: "walk", Fill: seed, Code: code, Mode: mode, DictCap: 4096})
			}
		}
	}
	// long runs at every phase of a 4 KiB reader window
	for n := 8100; n < 8400; n++ {
		cases = append(cases, C07Case{Kind: "runs", Fill: n, Code: 93, Mode: n % 3, DictCap: 4096})
	}
	// a maximal match at every amount of free window space, second filling of the window
	for j := 0; j <= 280; j++ {
		cases = append(cases, C07Case{Kind: "phase", Fill: j, Code: 93, Mode: j % 3, DictCap: 4096})
	}
	for n := 20000; n < 20280; n += 3 {
		cases = append(cases, C07Case{Kind: "runs", Fill: n, Code: 0, Mode: n % 3, DictCap: 4096})
	}
	for _, e := range corpus {
		if e.Kind == "lzma" {
			for _, dc := range []int{4096, 1 << 22} {
				cases = append(cases, C07Case{Kind: "corpus", File: e.File, DictCap: dc})
			}
		}
	}
	if liblzmaAvailable() {
		shapes := [][]Seg{{}, {{K: "Z", N: 1}}, {{K: "T", Seed: 1, N: 5000}}, {{K: "R", Seed: 1, N: 70000}}, {{K: "T", Seed: 2, N: 70000}, {K: "K", N: 65000}}, {{K: "Z", N: 300000}}}
		encs := [][]int{{0, 0, 0, 0, 0}, {6, 0, 0, 0, 0}, {255, 0, 4, 0, 4096}, {255, 4, 0, 4, 65536}, {255, 2, 2, 1, 1 << 20}}
		for _, sh := range shapes {
			for _, e := range encs {
				cases = append(cases, C07Case{Kind: "liblzma", Shape: sh, Enc: e, DictCap: 4096})
			}
		}
	}
	// the same streams through other sources and drained by io.Copy (which uses a WriteTo method of
	// the reader when there is one), also after a first Read call
	{
		base := cases
		for _, c := range base {
			if c.Kind == "liblzma" {
				continue
			}
			for _, v := range [][3]int{{5, 1, 0}, {4, 0, 0}, {0, 1, 1}, {2, 2, 7}, {0, 1, 5000}} {
				if c.Kind == "ops" && c.DictCap != 4096 {
					continue
				}
				q := c
				q.Src, q.Drain, q.Pre = v[0], v[1], v[2]
				cases = append(cases, q)
			}
		}
	}
	r.Parallel(len(cases), "reader side: fixed lists, corpus, liblzma", func(i int) { c07Read(r, cases[i]) })
	r.Extra("reader_operation_sequences_x_modes", n)
	r.Extra("reader_other_cases", len(cases))
	r.Sample(map[string]interface{}{"reader": "lit(00) match(2,1) rep0(273)  props code 224 (lc8 lp4 pb4), mode size+eos"})
	r.Sample(map[string]interface{}{"reader": "zero-length content, props code 93, mode size (18-byte stream)"})
	r.Sample(map[string]interface{}{"writer": kept[len(kept)/2].Cfg.String(), "input": shapeString(kept[len(kept)/2].Shape)})
}
