package props

import (
	"bufio"
	"bytes"
	"fmt"
	"io"
	"os"

	"github.com/ulikunitz/xz"

	"verif/core"
	"verif/ref"
)

// C01 — xz write→read round trip; C02 — every emitted stream is valid for an
// independent decoder. Both judge the same writer executions; each check runs
// its own enumeration and reports only its own oracle.

// XZWCase is one writer execution: configuration, input (shape), and the call
// history: Parts are the Write sizes in order (0 = zero-length write), a
// negative entry -1 is a Close. Remaining data after the last entry is written
// in one Write, followed by Close (unless a Close was already issued) and the
// after-close probes.
type XZWCase struct {
	Cfg   XZCfg
	Shape []Seg
	Parts []int `json:",omitempty"`
	// Env marks the environment family: Feed = how the input behind Parts is handed over (feedOf), Sink =
	// kind of sink (0 bare io.Writer, 1 also io.ByteWriter, 2 *bytes.Buffer, 4 *os.File, 3 *bufio.Writer over a bare
	// sink, flushed by the caller after every call), and the stream is decoded through several kinds of
	// source and drained by io.Copy as well
	Env  bool `json:",omitempty"`
	Feed int  `json:",omitempty"`
	Sink int  `json:",omitempty"`
}

func init() {
	register(&Check{ID: "C01", Level: "model_checking", Run: runC01})
	register(&Check{ID: "C02", Level: "model_checking", Run: runC02})
	scenario("C01", "xzwrite", func(r *core.Run, c core.Case) {
		var p XZWCase
		params(c, &p)
		xzWriteCase(r, "C01", p)
	})
	scenario("C02", "xzwrite", func(r *core.Run, c core.Case) {
		var p XZWCase
		params(c, &p)
		xzWriteCase(r, "C02", p)
	})
}

type callRes struct {
	Call string
	N    int
	Len  int
	Err  error
	Sink int // sink length after the call
}

// xzWriteExec drives the real writer.
func xzWriteExec(p XZWCase, data []byte) (sink []byte, calls []callRes, verr error, pan *core.PanicInfo) {
	cfg := p.Cfg.cfg()
	if verr = cfg.Verify(); verr != nil {
		return
	}
	var sbb sinkByteBuf
	sb := &sbb.sinkBuf
	var bbuf bytes.Buffer
	var bw *bufio.Writer
	var tf *os.File
	var sinkW io.Writer = sb
	switch p.Sink {
	case 1:
		sinkW = &sbb
	case 2:
		sinkW = &bbuf
	case 3:
		bw = bufio.NewWriterSize(sb, 512)
		sinkW = bw
	case 4:
		tf = tempFileWith(nil)
		sinkW = tf
	}
	sync := func() {
		if bw != nil {
			bw.Flush()
		}
		if p.Sink == 2 {
			sb.b = bbuf.Bytes()
		}
		if tf != nil {
			if fi, err := tf.Stat(); err == nil {
				b := make([]byte, fi.Size())
				if _, err := tf.ReadAt(b, 0); err == nil || err == io.EOF {
					sb.b = b
				}
			}
		}
	}
	defer func() {
		if tf != nil {
			tf.Close()
		}
	}()
	pan = core.Guard(func() {
		w, err := p.Cfg.open(sinkW)
		sync()
		calls = append(calls, callRes{Call: "NewWriter", Err: err, Sink: len(sb.b)})
		if err != nil {
			return
		}
		rest := data
		closed := false
		do := func(kind string, q []byte) {
			if kind == "Close" {
				err := w.Close()
				sync()
				calls = append(calls, callRes{Call: "Close", Err: err, Sink: len(sb.b)})
				return
			}
			if kind == "Feed" {
				n, err := feedOf(w, q, p.Feed)
				sync()
				calls = append(calls, callRes{Call: "Write", N: int(n), Len: len(q), Err: err, Sink: len(sb.b)})
				return
			}
			n, err := w.Write(q)
			sync()
			calls = append(calls, callRes{Call: "Write", N: n, Len: len(q), Err: err, Sink: len(sb.b)})
		}
		for _, k := range p.Parts {
			if k < 0 {
				do("Close", nil)
				closed = true
				continue
			}
			if k > len(rest) {
				k = len(rest)
			}
			do("Write", rest[:k])
			if !closed {
				rest = rest[k:]
			}
		}
		if !closed {
			if len(rest) > 0 || len(p.Parts) == 0 {
				if p.Feed > 0 {
					do("Feed", rest)
				} else {
					do("Write", rest)
				}
			}
			do("Close", nil)
		}
		// after-close probes
		do("Write", []byte("x"))
		do("Write", nil)
		do("Close", nil)
	})
	sync()
	sink = append([]byte(nil), sb.b...)
	return
}

// xzWriterSite names where a failure sits, from configuration and history
// only (never from bytes or error texts).
func xzWriterSite(p XZWCase, data []byte) string {
	s := "matcher=" + matcherName(p.Cfg.Matcher)
	dc := p.Cfg.DictCap
	if dc == 0 {
		dc = 8 << 20
	}
	bs := p.Cfg.BufSize
	if bs == 0 {
		bs = 4096
	}
	if dc+bs < 1<<16 {
		s += " dict+buf<64KiB"
	}
	if bytes.IndexByte(data[:minInt(len(data), 64)], 0) >= 0 {
		s += " early-zero-byte"
	}
	return s
}

func minInt(a, b int) int {
	if a < b {
		return a
	}
	return b
}

func xzWriteCase(r *core.Run, prop string, p XZWCase) {
	data := buildShape(p.Shape)
	cs := core.MkCase(prop, "xzwrite", p)
	sink, calls, verr, pan := xzWriteExec(p, data)
	if verr != nil {
		r.Count("config_rejected_by_Verify", 1)
		return
	}
	site := xzWriterSite(p, data)
	desc := fmt.Sprintf("cfg=%s input=%s (%d bytes) parts=%v", p.Cfg, shapeString(p.Shape), len(data), p.Parts)
	if p.Env {
		desc += fmt.Sprintf(" fed by %s, sink kind %d (0 bare, 1 ByteWriter, 2 bytes.Buffer, 3 bufio.Writer, 4 os.File)", feedModeNames[p.Feed], p.Sink)
	}
	if pan != nil {
		if prop == "C01" {
			r.Violate(cs, "xzW panic@"+pan.Site()+" "+site, desc, pan.Value+" | "+pan.Stack, "no panic")
		}
		return
	}
	// which part of data was written before the first Close
	written := 0
	closedAt := -1
	closeSink := 0
	callsOK := true
	var callDesc string
	for i, c := range calls {
		if closedAt >= 0 {
			// after Close: must fail and emit nothing
			if prop == "C01" {
				if c.Err == nil {
					r.Violate(cs, "xzW "+c.Call+"-after-Close returns nil", desc, fmt.Sprintf("call %d %s → n=%d err=nil", i, c.Call, c.N), "an error")
				}
				if c.Sink != closeSink {
					r.Violate(cs, "xzW "+c.Call+"-after-Close emits bytes", desc, fmt.Sprintf("sink grew from %d to %d", closeSink, c.Sink), "nothing emitted")
				}
				if c.Call == "Write" && c.N != 0 {
					r.Violate(cs, "xzW Write-after-Close reports n>0", desc, fmt.Sprintf("n=%d", c.N), "n=0")
				}
			}
			continue
		}
		switch c.Call {
		case "NewWriter":
			if c.Err != nil {
				callsOK = false
				callDesc = "NewWriter → " + errStr(c.Err)
			}
		case "Write":
			if c.Err != nil || c.N != c.Len {
				if callsOK {
					callDesc = fmt.Sprintf("call %d Write(len %d) → n=%d err=%s", i, c.Len, c.N, errStr(c.Err))
				}
				callsOK = false
			}
			written += c.Len
		case "Close":
			if c.Err != nil {
				if callsOK {
					callDesc = fmt.Sprintf("call %d Close → %s", i, errStr(c.Err))
				}
				callsOK = false
			}
			closedAt = i
			closeSink = c.Sink
		}
	}
	want := data[:written]
	if len(calls) == 1 && !callsOK { // constructor failed
		want = nil
	}
	streamClass := "unknown"
	switch prop {
	case "C01":
		if !callsOK {
			r.Violate(cs, "xzW call-fails "+site, desc, callDesc, "every Write returns (len(p), nil) and Close returns nil")
			r.Eval(core.Hash("callfail", site))
			return
		}
		out, err, proto, rp := xzDecode(sink, 0, false)
		switch {
		case rp != nil:
			r.Violate(cs, "xzW→xzR reader-panic "+site, desc, rp.Value+" | "+rp.Stack, "round trip")
		case proto != "":
			r.Violate(cs, "xzW→xzR reader-protocol "+site, desc, proto, "round trip")
		case !bytes.Equal(out, want) || err == nil || errClass(err) != "EOF":
			r.Violate(cs, "xzW→xzR mismatch "+site, desc,
				fmt.Sprintf("reader: %d bytes, err=%s, first difference at %d", len(out), errStr(err), firstDiff(out, want)),
				fmt.Sprintf("%d bytes then io.EOF", len(want)))
		}
		streamClass = errClass(err)
		// the reader's own (smaller) dictionary capacity must not matter: the declared size wins
		if rp == nil && proto == "" && len(sink) <= 400000 {
			out2, err2, proto2, rp2 := xzDecode(sink, 4096, false)
			if rp2 != nil || proto2 != "" || !bytes.Equal(out2, want) || errClass(err2) != "EOF" {
				r.Violate(cs, "xzW→xzR(DictCap 4096) mismatch "+site, desc,
					fmt.Sprintf("reader with ReaderConfig.DictCap=4096: %d bytes, err=%s, first difference at %d", len(out2), errStr(err2), firstDiff(out2, want)),
					fmt.Sprintf("%d bytes then io.EOF", len(want)))
			}
		}
		// environment family: the same stream through other kinds of source, drained by io.Copy
		if p.Env && rp == nil && proto == "" {
			for _, v := range [][2]int{{4, 0}, {2, 1}, {5, 2}, {10, 0}, {12, 1}} {
				var out3 []byte
				var err3 error
				var proto3 string
				rp3 := core.Guard(func() {
					var rd io.Reader
					source := sourceOf(v[0], sink)
					if c, ok := source.(io.Closer); ok {
						defer c.Close()
					}
					rd, err3 = xz.ReaderConfig{DictCap: 4096}.NewReader(source)
					if err3 != nil {
						return
					}
					out3, err3, proto3 = drainOf(rd, v[1], 4096, 256<<20)
				})
				if rp3 != nil || proto3 != "" || !bytes.Equal(out3, want) || errClass(err3) != "EOF" {
					r.Violate(cs, "xzW→xzR("+sourceKindNames[v[0]]+") mismatch "+site, desc,
						fmt.Sprintf("reader on a source of kind %q drained by %s: %d bytes, err=%s, first difference at %d", sourceKindNames[v[0]], drainModeNames[v[1]], len(out3), errStr(err3), firstDiff(out3, want)),
						fmt.Sprintf("%d bytes then io.EOF", len(want)))
				}
			}
		}
	case "C02":
		x := ref.DecodeXZ(sink, ref.XZOptions{})
		ok := x.Err == nil && bytes.Equal(x.Out, want)
		if !callsOK {
			// the property judges every emitted stream the writer declared complete
			// (Close returned nil); a failed call is C01's business.
			r.Count("writer_call_failed(skipped)", 1)
			r.Eval(core.Hash("callfail", site))
			return
		}
		if !ok {
			r.Violate(cs, "xzW stream-invalid-for-reference "+site, desc,
				fmt.Sprintf("reference: err=%v, %d bytes, first difference at %d", x.Err, len(x.Out), firstDiff(x.Out, want)),
				fmt.Sprintf("valid .xz decoding to the %d input bytes", len(want)))
			return
		}
		if len(sink)%4 != 0 || len(x.Streams) != 1 {
			r.Violate(cs, "xzW stream-layout", desc, fmt.Sprintf("len=%d streams=%d", len(sink), len(x.Streams)), "one stream, multiple of 4 bytes")
		}
		// block size rule
		bsz := p.Cfg.BlockSize
		blocks := x.Streams[0].Blocks
		if bsz > 0 {
			for i, b := range blocks {
				last := i == len(blocks)-1
				if (!last && int64(b.UncompSize) != bsz) || (last && int64(b.UncompSize) > bsz) {
					r.Violate(cs, "xzW block-size-rule", desc, fmt.Sprintf("block %d of %d holds %d bytes", i, len(blocks), b.UncompSize), fmt.Sprintf("BlockSize %d", bsz))
					break
				}
			}
		}
		// declared dictionary covers the configured capacity's code and all distances (the
		// reference decoder already rejects distances beyond the declared size)
		for _, b := range blocks {
			for _, ch := range b.Chunks {
				r.Trans(ch.StateBefore + "--" + ch.Kind.String())
				r.State(ch.StateBefore)
			}
			r.State(fmt.Sprintf("blocks:%d", minInt(len(blocks), 4)))
		}
		if s := liblzmaAgrees('x', 0, sink, want); s != "" {
			r.Violate(cs, "xzW stream-rejected-by-liblzma "+site, desc, s, "liblzma decodes it to the input")
		}
		ks := ""
		for _, b := range blocks {
			for _, ch := range b.Chunks {
				if len(ks) < 24 {
					ks += fmt.Sprint(int(ch.Kind))
				}
			}
			ks += "|"
			if len(ks) > 24 {
				break
			}
		}
		streamClass = fmt.Sprintf("ok blocks=%d chunks=%s check=%d", minInt(len(blocks), 6), ks, x.Streams[0].Check)
	}
	if prop == "C01" {
		// abstract writer state reached: history class x block/chunk boundary class
		x := ref.DecodeXZ(sink, ref.XZOptions{})
		if x.Err == nil && len(x.Streams) == 1 {
			nb := len(x.Streams[0].Blocks)
			nch := 0
			kinds := ""
			for _, b := range x.Streams[0].Blocks {
				nch += len(b.Chunks)
				for _, ch := range b.Chunks {
					r.Trans("chunk:" + ch.StateBefore + "--" + ch.Kind.String())
				}
			}
			if nb > 0 && len(x.Streams[0].Blocks[0].Chunks) > 0 {
				kinds = x.Streams[0].Blocks[0].Chunks[0].Kind.String()
			}
			r.State(fmt.Sprintf("blocks:%d chunks:%d first:%s", minInt(nb, 4), minInt(nch, 4), kinds))
		}
		hist := ""
		for _, c := range calls {
			k := c.Call[:1]
			if c.Call == "Write" && c.Len == 0 {
				k = "w0"
			}
			hist += k
			r.Trans("call:" + hist[:minInt(len(hist), 6)])
		}
	}
	r.Trace(1)
	// non-trivial: distinct (result class, block count bucket, chunk-kind sequence prefix, call-history shape)
	kindSeq := ""
	nbl := 0
	if x := ref.DecodeXZ(sink, ref.XZOptions{}); x.Err == nil && len(x.Streams) == 1 {
		nbl = len(x.Streams[0].Blocks)
		for _, b := range x.Streams[0].Blocks {
			for _, ch := range b.Chunks {
				if len(kindSeq) < 24 {
					kindSeq += fmt.Sprint(int(ch.Kind))
				}
			}
			kindSeq += "|"
			if len(kindSeq) > 24 {
				break
			}
		}
	}
	shape := ""
	for _, c := range calls {
		if len(shape) < 8 {
			shape += c.Call[:1]
		}
	}
	h := core.Hash(streamClass, minInt(nbl, 6), kindSeq, shape)
	r.Eval(core.Hash(sink))
	r.Nontrivial(h)
}

// ----- enumeration -----

func c01Cases(r *core.Run, prop string) []XZWCase {
	var cases []XZWCase
	th := thorough(r)
	add := func(c XZWCase) { cases = append(cases, c) }
	lit := func(b []byte) Seg { return Seg{K: "L", Lit: append([]byte{}, b...)} }
	tail := Seg{K: "L", Lit: tailT}

	// (a) Σ3 heads × {plain, head+T, T+head} × matchers × property corners
	n := 5
	if th {
		n = 7
	}
	corners := [][3]int{{3, 0, 2}, {0, 0, 0}, {4, 0, 4}, {0, 4, 0}, {2, 2, 1}, {0, 0, 4}}
	if prop == "C02" && !th {
		n = 4
	}
	for _, h := range sigma3(n) {
		for form := 0; form < 3; form++ {
			var sh []Seg
			switch form {
			case 0:
				sh = []Seg{lit(h)}
			case 1:
				sh = []Seg{lit(h), tail}
			case 2:
				sh = []Seg{tail, lit(h)}
			}
			for m := 0; m < 2; m++ {
				for ci, c := range corners {
					if !th && ci >= 3 && len(h) > 3 {
						continue
					}
					add(XZWCase{Cfg: XZCfg{Props: true, LC: c[0], LP: c[1], PB: c[2], DictCap: 4096, Matcher: m}, Shape: sh})
				}
			}
		}
	}
	// (b) all 75 property sets × matchers × representative inputs
	reps := [][]Seg{
		{},
		{lit([]byte{0})},
		{lit([]byte("a"))},
		{lit([]byte{0, 0, 'a', 0}), tail},
		{{K: "T", Seed: 1, N: 3000}},
		{{K: "R", Seed: 1, N: 700}, {K: "K", N: 500}},
		{{K: "Z", N: 600}, {K: "T", Seed: 2, N: 900}, {K: "A", B: 0xff, N: 300}},
		{{K: "T", Seed: 3, N: 5000}, {K: "K", N: 4100}},
	}
	for _, pr := range allProps2() {
		for m := 0; m < 2; m++ {
			for _, sh := range reps {
				add(XZWCase{Cfg: XZCfg{Props: true, LC: pr[0], LP: pr[1], PB: pr[2], DictCap: 4096, Matcher: m}, Shape: sh})
			}
		}
	}
	// (c) configuration sub-lattice × depth-1 shapes
	menu1 := []Seg{
		{K: "L", Lit: []byte{}}, {K: "L", Lit: []byte("a")}, {K: "Z", N: 272}, {K: "Z", N: 274}, {K: "A", B: 'x', N: 4097},
		{K: "T", Seed: 4, N: 4096}, {K: "R", Seed: 2, N: 4095}, {K: "T", Seed: 5, N: 65537}, {K: "R", Seed: 3, N: 70000}, {K: "Z", N: 65536},
	}
	for _, dc := range []int{4096, 65536} {
		for _, bs := range []int{273, 4096} {
			for _, blk := range []int64{0, 1, 7, 4096, -1, -2, -3} { // negative: len-1, len, len+1
				for _, ck := range []int{0, 1, 4, 10, -1} {
					for m := 0; m < 2; m++ {
						for si, sg := range menu1 {
							ln := int64(len(buildShapeLen(sg)))
							b := blk
							switch blk {
							case -1:
								b = ln - 1
							case -2:
								b = ln
							case -3:
								b = ln + 1
							}
							if blk < 0 && b <= 0 {
								continue
							}
							if b == 1 && ln > 300 {
								continue
							}
							if b == 7 && ln > 5000 {
								continue
							}
							if !th && (si%2 == 1) && (ck == 1 || ck == 10) {
								continue
							}
							c := XZCfg{DictCap: dc, BufSize: bs, BlockSize: b, Matcher: m}
							if ck >= 0 {
								c.Check = byte(ck)
							} else {
								c.NoCheck = true
							}
							add(XZWCase{Cfg: c, Shape: []Seg{sg}})
						}
					}
				}
			}
		}
	}
	// (d) shape lists of depth 2 (and 3 on a reduced menu when thorough)
	menu2 := []Seg{
		{K: "Z", N: 1}, {K: "Z", N: 273}, {K: "A", B: 'q', N: 4096}, {K: "T", Seed: 6, N: 4097}, {K: "R", Seed: 4, N: 4096},
		{K: "T", Seed: 7, N: 65535}, {K: "R", Seed: 5, N: 65537}, {K: "K", N: 4097}, {K: "K", N: 70000},
	}
	big := []Seg{{K: "Z", N: 1<<21 - 1}, {K: "R", Seed: 6, N: 1<<21 + 1}, {K: "T", Seed: 8, N: 1<<21 + 70000}, {K: "A", B: 7, N: 1 << 21}}
	for _, a := range menu2 {
		for _, b := range menu2 {
			if a.K == "K" {
				continue
			}
			for m := 0; m < 2; m++ {
				for _, dc := range []int{4096, 65536, 1 << 20} {
					if m == 1 && dc > 65536 {
						continue
					}
					add(XZWCase{Cfg: XZCfg{DictCap: dc, Matcher: m}, Shape: []Seg{a, b}})
				}
			}
		}
	}
	for _, a := range big {
		for _, b := range append([]Seg{{K: "L", Lit: []byte{}}}, menu2[:6]...) {
			for _, dc := range []int{65536, 1 << 20, 0} {
				if !th && dc == 0 {
					continue
				}
				// HashTable4 only: BinaryTree is quadratic on long low-entropy data (cost bound)
				add(XZWCase{Cfg: XZCfg{DictCap: dc}, Shape: []Seg{a, b}})
				if th {
					add(XZWCase{Cfg: XZCfg{DictCap: dc}, Shape: []Seg{b, a}})
				}
			}
		}
	}
	// dictionary capacities that are not exactly representable: matches at distances
	// between the next smaller representable size and the capacity
	for _, dc := range []int{4097, 5000, 6145, 70000, 1<<20 + 1} {
		for m := 0; m < 2; m++ {
			if m == 1 && dc > 70000 {
				continue
			}
			add(XZWCase{Cfg: XZCfg{DictCap: dc, Matcher: m}, Shape: []Seg{{K: "R", Seed: 12, N: dc - 40}, {K: "K", N: dc - 40}, {K: "T", Seed: 12, N: 500}}})
			add(XZWCase{Cfg: XZCfg{DictCap: dc, Matcher: m, BufSize: 273}, Shape: []Seg{{K: "R", Seed: 13, N: dc - 1}, {K: "L", Lit: []byte("x")}, {K: "K", N: dc}}})
		}
	}
	// BinaryTree on large incompressible data (no quadratic behaviour there)
	add(XZWCase{Cfg: XZCfg{DictCap: 65536, Matcher: 1}, Shape: []Seg{{K: "R", Seed: 9, N: 1<<21 + 70000}}})
	add(XZWCase{Cfg: XZCfg{DictCap: 4096, Matcher: 1}, Shape: []Seg{{K: "R", Seed: 9, N: 200000}}})
	add(XZWCase{Cfg: XZCfg{DictCap: 32768}, Shape: []Seg{{K: "R", Seed: 9, N: 200000}}})
	if th {
		m3 := []Seg{{K: "Z", N: 274}, {K: "T", Seed: 9, N: 4097}, {K: "R", Seed: 7, N: 4096}, {K: "K", N: 4097}, {K: "A", B: 'a', N: 65536}}
		for _, a := range m3 {
			for _, b := range m3 {
				for _, c := range m3 {
					if a.K == "K" {
						continue
					}
					for m := 0; m < 2; m++ {
						add(XZWCase{Cfg: XZCfg{DictCap: 4096, BufSize: 273, Matcher: m}, Shape: []Seg{a, b, c}})
						add(XZWCase{Cfg: XZCfg{DictCap: 65536, Matcher: m, BlockSize: 4096}, Shape: []Seg{a, b, c}})
					}
				}
			}
		}
	}
	// (g) configuration product: DictCap x BufSize x BlockSize x check x matcher completely, on
	// three (thorough: nine) medium shapes; and every lc/lp/pb set crossed with every value of
	// every other dimension (pairs), on two shapes one of which forces raw chunks
	gshapes := [][]Seg{
		{{K: "T", Seed: 21, N: 3000}, {K: "K", N: 2000}, {K: "Z", N: 300}, {K: "L", Lit: []byte{0, 1, 2, 3, 0xff}}},
		{{K: "T", Seed: 22, N: 500}, {K: "R", Seed: 22, N: 66000}, {K: "T", Seed: 23, N: 800}, {K: "K", N: 700}},
		{{K: "L", Lit: []byte{0}}, {K: "A", B: 0, N: 5000}, {K: "T", Seed: 24, N: 5000}, {K: "K", N: 4097}},
	}
	if th {
		gshapes = append(gshapes,
			[]Seg{},
			[]Seg{{K: "L", Lit: []byte("a")}},
			[]Seg{{K: "R", Seed: 25, N: 4095}, {K: "K", N: 4095}, {K: "K", N: 8190}},
			[]Seg{{K: "T", Seed: 26, N: 60000}, {K: "Z", N: 4096}, {K: "K", N: 9000}},
			[]Seg{{K: "R", Seed: 27, N: 140000}, {K: "T", Seed: 27, N: 3000}},
			[]Seg{{K: "A", B: 'z', N: 273}, {K: "L", Lit: []byte("y")}, {K: "A", B: 'z', N: 274}, {K: "R", Seed: 28, N: 30}, {K: "K", N: 600}},
		)
	}
	gdict := []int{4096, 4097, 32768, 65536, 1 << 20, 0}
	gbuf := []int{273, 274, 4096, 1 << 16}
	gblk := []int64{0, 1, 7, 4096, 65536, -1, -2, -3}
	gchk := []int{0, 1, 4, 10, -1}
	mkcfg := func(dc, bs int, blk int64, ck, m int, ln int64) (XZCfg, bool) {
		b := blk
		switch blk {
		case -1:
			b = ln - 1
		case -2:
			b = ln
		case -3:
			b = ln + 1
		}
		if (blk < 0 && b <= 0) || (b == 1 && ln > 300) || (b == 7 && ln > 6000) {
			return XZCfg{}, false
		}
		if m == 1 && (dc == 0 || dc > 65536) {
			return XZCfg{}, false // BinaryTree cost bound
		}
		c := XZCfg{DictCap: dc, BufSize: bs, BlockSize: b, Matcher: m}
		if ck >= 0 {
			c.Check = byte(ck)
		} else {
			c.NoCheck = true
		}
		return c, true
	}
	for _, sh := range gshapes {
		ln := int64(len(buildShape(sh)))
		for _, dc := range gdict {
			for _, bs := range gbuf {
				for _, blk := range gblk {
					for _, ck := range gchk {
						for m := 0; m < 2; m++ {
							if c, ok := mkcfg(dc, bs, blk, ck, m, ln); ok {
								add(XZWCase{Cfg: c, Shape: sh})
							}
						}
					}
				}
			}
		}
	}
	for _, pr := range allProps2() {
		for _, sh := range gshapes[:2] {
			ln := int64(len(buildShape(sh)))
			with := func(c XZCfg, ok bool) {
				if ok {
					c.Props, c.LC, c.LP, c.PB = true, pr[0], pr[1], pr[2]
					add(XZWCase{Cfg: c, Shape: sh})
				}
			}
			for _, dc := range gdict {
				with(mkcfg(dc, 0, 0, 0, 0, ln))
			}
			for _, bs := range gbuf {
				with(mkcfg(65536, bs, 0, 0, 0, ln))
			}
			for _, blk := range gblk {
				with(mkcfg(65536, 0, blk, 0, 0, ln))
			}
			for _, ck := range gchk {
				with(mkcfg(65536, 0, 0, ck, 0, ln))
			}
			with(mkcfg(65536, 0, 0, 0, 1, ln))
			with(mkcfg(4096, 273, 4096, 1, 1, ln))
		}
	}
	// (h) runs of one byte whose length sits around one and two maximal matches (273): the
	// operation pairs literal -> match(273) -> short rep / rep0 only arise there
	for _, n := range []int{270, 271, 272, 273, 274, 275, 276, 277, 280, 544, 545, 546, 547, 548, 549, 550, 819, 820, 821} {
		for _, b := range []byte{0, 'a'} {
			for m := 0; m < 2; m++ {
				add(XZWCase{Cfg: XZCfg{DictCap: 4096, Matcher: m}, Shape: []Seg{{K: "A", B: b, N: n}, {K: "L", Lit: []byte("x")}, tail}})
				add(XZWCase{Cfg: XZCfg{DictCap: 4096, Matcher: m, Props: true, LC: 0, LP: 2, PB: 0}, Shape: []Seg{{K: "L", Lit: []byte("q")}, {K: "A", B: b, N: n}, {K: "L", Lit: []byte("xy")}, {K: "A", B: b, N: 5}}})
			}
		}
	}
	// (h2) the same run lengths (also with periods 2 and 3) between two stretches of text: the
	// coder states entered after literal -> match(273) -> short rep meet probabilities that the
	// text before has already trained, so a wrong state transition changes the code
	for _, n := range []int{272, 273, 274, 275, 276, 277, 278, 546, 547, 548, 549, 550, 551} {
		for _, per := range []string{"a", "\x00", "ab", "abc"} {
			run := bytes.Repeat([]byte(per), n/len(per)+1)[:n]
			for m := 0; m < 2; m++ {
				add(XZWCase{Cfg: XZCfg{DictCap: 4096, Matcher: m}, Shape: []Seg{{K: "T", Seed: 7, N: 3000}, lit(run), {K: "T", Seed: 8, N: 2000}}})
				if per != "ab" {
					add(XZWCase{Cfg: XZCfg{DictCap: 4096, Matcher: m, Props: true, LC: 0, LP: 2, PB: 1}, Shape: []Seg{{K: "T", Seed: 7, N: 3000}, lit(run), {K: "T", Seed: 9, N: 1000}, lit(run[:n-1]), {K: "T", Seed: 8, N: 1000}}})
				}
			}
		}
	}
	// (k) configuration histories: one WriterConfig variable is verified with configuration A (Verify
	// fills defaults in place), then set to configuration B, then used; all ordered pairs of a menu.
	// The stream must be what B alone produces (dictionary byte, properties, block size, check).
	{
		cm := []XZCfg{
			{DictCap: 4096},
			{DictCap: 65536, Check: 1},
			{DictCap: 1 << 20, Props: true, LC: 0, LP: 0, PB: 0},
			{DictCap: 6145, Props: true, LC: 1, LP: 2, PB: 3, BlockSize: 3000},
			{DictCap: 4096, BufSize: 273, Check: 10, Matcher: 1},
			{DictCap: 40000, NoCheck: true, BlockSize: 70000},
			{},
		}
		far := []Seg{{K: "T", Seed: 41, N: 45000}, {K: "K", N: 39000}, {K: "R", Seed: 41, N: 500}}
		for i := range cm {
			for j := range cm {
				if i == j {
					continue
				}
				c := cm[j]
				pre := cm[i]
				c.Pre = &pre
				add(XZWCase{Cfg: c, Shape: far})
				add(XZWCase{Cfg: c, Shape: []Seg{{K: "T", Seed: 42, N: 7000}}})
				c.PreUsed = true
				add(XZWCase{Cfg: c, Shape: far})
			}
		}
	}
	// (l) codec pollution: recurring long phrases (long length class, rep matches), then noise with
	// planted repeats (stored raw after a compression attempt that used every codec), then phrases
	// again - the state restored after the raw chunk must not share any table with the attempt
	for _, sh := range [][]Seg{
		{{K: "P", Seed: 51, N: 20000}, {K: "N", Seed: 51, N: 70000}, {K: "P", Seed: 52, N: 20000}},
		{{K: "N", Seed: 53, N: 70000}, {K: "P", Seed: 53, N: 20000}},
		{{K: "P", Seed: 54, N: 5000}, {K: "N", Seed: 54, N: 70000}, {K: "N", Seed: 55, N: 70000}, {K: "P", Seed: 54, N: 20000}, {K: "K", N: 3000}},
		{{K: "T", Seed: 56, N: 30000}, {K: "N", Seed: 56, N: 140000}, {K: "T", Seed: 57, N: 30000}},
	} {
		for _, c := range []XZCfg{{}, {DictCap: 65536}, {DictCap: 1 << 20, Matcher: 1}, {Props: true, LC: 0, LP: 0, PB: 0, DictCap: 65536}, {Props: true, LC: 1, LP: 2, PB: 4, DictCap: 1 << 17, BlockSize: 100000}} {
			add(XZWCase{Cfg: c, Shape: sh})
		}
	}
	// (m) one Write call that carries more than 2 MiB + 64 KiB: a chunk is cut by the compressed-size
	// limit (incompressible start) and by the 2 MiB limit (long run) inside the same call, with
	// look-ahead data left over at each cut
	for _, sh := range [][]Seg{
		{{K: "R", Seed: 61, N: 100000}, {K: "Z", N: 1<<21 + 300000}},
		{{K: "Z", N: 1<<21 + 70000}, {K: "R", Seed: 62, N: 100000}, {K: "A", B: 'k', N: 1<<21 + 5}},
		{{K: "T", Seed: 63, N: 70000}, {K: "A", B: 0xff, N: 1<<21 + 4097}, {K: "T", Seed: 63, N: 3000}},
	} {
		add(XZWCase{Cfg: XZCfg{}, Shape: sh})
		add(XZWCase{Cfg: XZCfg{DictCap: 65536, BufSize: 273, Check: 1}, Shape: sh})
	}
	// (n) blocks longer than the encoder's ring buffer (DictCap+BufSize+1), several of them: each
	// block gets a new LZMA2 writer after the previous one took in more than a full ring
	for _, c := range []XZCfg{{DictCap: 65536, BlockSize: 80000}, {DictCap: 65536, BufSize: 273, BlockSize: 66000, Check: 1}, {DictCap: 4096, BlockSize: 9000, Check: 10}, {DictCap: 65536, BlockSize: 70000, Matcher: 1}} {
		add(XZWCase{Cfg: c, Shape: []Seg{{K: "T", Seed: 64, N: 250000}}})
		if c.Matcher == 0 {
			add(XZWCase{Cfg: c, Shape: []Seg{{K: "P", Seed: 64, N: 100000}, {K: "R", Seed: 64, N: 90000}, {K: "T", Seed: 65, N: 60000}}})
		}
	}
	// (o) boundary lattice derived from the configuration: input lengths at every size the encoder's
	// buffers define (D = DictCap, B = BufSize, ring = D+B+1), each -1 / 0 / +1, x five kinds of data
	for _, db := range [][2]int{{4096, 273}, {4096, 4096}, {5000, 300}, {65536, 4096}} {
		D, B := db[0], db[1]
		var ls []int
		for _, c := range []int{B, D, D + B, D + B + 1, 2*(D+B+1) - 1, 2 * D, 3*(D+B+1) + 272} {
			for d := -1; d <= 1; d++ {
				if c+d > 0 && c+d <= 220000 {
					ls = append(ls, c+d)
				}
			}
		}
		for _, L := range ls {
			for _, k := range []string{"A", "T", "R", "P", "N"} {
				for m := 0; m < 2; m++ {
					if m == 1 && (k == "A" || L > 70000) {
						continue // BinaryTree cost bound
					}
					add(XZWCase{Cfg: XZCfg{DictCap: D, BufSize: B, Matcher: m, Check: 1}, Shape: []Seg{{K: k, Seed: 70, B: 'm', N: L}}})
				}
			}
		}
	}
	// (p) values at the boundaries of the container's variable-length integers (7 / 14 / 21 bits) in
	// the index: uncompressed sizes, block sizes, unpadded sizes and the record count
	for _, L := range []int{127, 128, 129, 16383, 16384, 16385, 1<<21 - 1, 1 << 21, 1<<21 + 1} {
		for _, k := range []string{"T", "R"} {
			if L > 1<<20 && k == "R" {
				continue
			}
			add(XZWCase{Cfg: XZCfg{DictCap: 65536, Check: 1}, Shape: []Seg{{K: k, Seed: 72, N: L}}})
		}
	}
	for _, bs := range []int64{127, 128, 16383, 16384} {
		add(XZWCase{Cfg: XZCfg{DictCap: 4096, BlockSize: bs, Check: 4}, Shape: []Seg{{K: "R", Seed: 73, N: int(3*bs + 5)}}})
		add(XZWCase{Cfg: XZCfg{DictCap: 4096, BlockSize: bs}, Shape: []Seg{{K: "T", Seed: 73, N: int(2 * bs)}}})
	}
	// unpadded block sizes around 128 and 16384 bytes: incompressible blocks of 100..140 / 16350..16400 bytes
	for n := 100; n <= 140; n++ {
		add(XZWCase{Cfg: XZCfg{DictCap: 4096, NoCheck: true}, Shape: []Seg{{K: "R", Seed: 74, N: n}}})
	}
	for n := 16350; n <= 16400; n += 2 {
		add(XZWCase{Cfg: XZCfg{DictCap: 4096, Check: 1}, Shape: []Seg{{K: "R", Seed: 74, N: n}}})
	}
	add(XZWCase{Cfg: XZCfg{DictCap: 4096, BlockSize: 1, Check: 1}, Shape: []Seg{{K: "T", Seed: 75, N: 16385}}}) // 16385 records
	// 131200 one-byte blocks: the index passes 256 KiB, so the backward size in the footer needs its third byte
	add(XZWCase{Cfg: XZCfg{DictCap: 4096, BlockSize: 1, Check: 1}, Shape: []Seg{{K: "T", Seed: 76, N: 131200}}})
	// (q) property sets the .xz format forbids (lc+lp > 4): if the library accepts such a
	// configuration, what it emits is still judged as an .xz file
	for _, pr := range [][3]int{{4, 1, 0}, {3, 2, 2}, {2, 3, 1}, {1, 4, 4}, {4, 4, 4}} {
		add(XZWCase{Cfg: XZCfg{Props: true, LC: pr[0], LP: pr[1], PB: pr[2], DictCap: 4096}, Shape: []Seg{{K: "T", Seed: 76, N: 900}}})
	}
	// (r) write partitions with one short and one long call next to each other, inside a block, for
	// every check type (anything that batches or buffers the data for the check sees both orders)
	for _, a := range []int{1, 100, 255, 256, 257, 1000} {
		for _, b := range []int{1, 100, 255, 256, 257, 1000} {
			for _, ck := range []XZCfg{{DictCap: 4096}, {DictCap: 4096, Check: 1}, {DictCap: 4096, Check: 10}, {DictCap: 4096, BlockSize: 700, Check: 4}} {
				add(XZWCase{Cfg: ck, Shape: []Seg{{K: "T", Seed: 77, N: 2600}}, Parts: []int{a, b, 50, b, a}})
			}
		}
	}
	// (i) raw-chunk residency boundary: DictCap+BufSize just below / at / above the size of one full
	// incompressible chunk (64 KiB), with more than two chunks of incompressible input: the writer
	// may store a chunk raw only while its bytes are still held by the encoder dictionary
	for _, sum := range []int{64000, 65000, 65536, 65540, 65600, 66000, 66500, 67000, 69632, 70000} {
		for _, split := range [][2]int{{4096, sum - 4096}, {sum - 8192, 8192}, {sum - 273, 273}} {
			for _, sh := range [][]Seg{{{K: "R", Seed: 31, N: 140000}, {K: "T", Seed: 31, N: 3000}}, {{K: "R", Seed: 32, N: 200000}}, {{K: "T", Seed: 33, N: 2000}, {K: "R", Seed: 33, N: 135000}, {K: "K", N: 3000}}} {
				add(XZWCase{Cfg: XZCfg{DictCap: split[0], BufSize: split[1]}, Shape: sh})
			}
		}
	}
	// the same boundary with the input handed over in two Write calls
	for _, sum := range []int{65536, 66000, 67192} {
		for _, split := range [][2]int{{4096, sum - 4096}, {sum - 8192, 8192}} {
			add(XZWCase{Cfg: XZCfg{DictCap: split[0], BufSize: split[1]}, Shape: []Seg{{K: "R", Seed: 34, N: 140000}, {K: "T", Seed: 34, N: 3000}}, Parts: []int{70000, 70000}})
			add(XZWCase{Cfg: XZCfg{DictCap: split[0], BufSize: split[1]}, Shape: []Seg{{K: "R", Seed: 35, N: 210000}}, Parts: []int{70000, 1, 69999}})
		}
	}
	// (j) look-ahead buffer larger than the dictionary: a repeat whose only source lies beyond the
	// dictionary capacity but inside the buffer must not be used (the header declares DictCap)
	for _, dc := range []int{4096, 4097, 8192, 32768} {
		for _, bs := range []int{2 * dc, 65536, 1 << 17} {
			for m := 0; m < 2; m++ {
				if bs <= dc {
					continue
				}
				add(XZWCase{Cfg: XZCfg{DictCap: dc, BufSize: bs, Matcher: m}, Shape: []Seg{{K: "R", Seed: 36, N: dc + dc/2}, {K: "K", N: dc + dc/2}, {K: "T", Seed: 36, N: 500}}})
			}
		}
	}
	if prop == "C02" {
		return cases
	}
	// (e) write partitions: all compositions of short inputs, zero-length writes
	partInputs := [][]byte{[]byte("abcabc"), {0, 0, 'a', 0, 'a', 'b'}, []byte("aaaaaa")}
	for _, in := range partInputs {
		nn := len(in)
		for mask := 0; mask < 1<<uint(nn-1); mask++ {
			var parts []int
			run := 1
			for i := 0; i < nn-1; i++ {
				if mask>>uint(i)&1 == 1 {
					parts = append(parts, run)
					run = 1
				} else {
					run++
				}
			}
			parts = append(parts, run)
			for m := 0; m < 2; m++ {
				add(XZWCase{Cfg: XZCfg{DictCap: 4096, Matcher: m, BlockSize: 4}, Shape: []Seg{lit(in), tail}, Parts: parts})
				// same with a zero-length write inserted at every position (one deviation)
				for z := 0; z <= len(parts); z++ {
					pz := append(append(append([]int{}, parts[:z]...), 0), parts[z:]...)
					add(XZWCase{Cfg: XZCfg{DictCap: 4096, Matcher: m}, Shape: []Seg{lit(in), tail}, Parts: pz})
				}
			}
		}
	}
	// boundary-relevant cuts of longer inputs (deviation bound 2 on cut positions)
	long := []Seg{{K: "T", Seed: 10, N: 70000}, {K: "R", Seed: 8, N: 70000}}
	cuts := []int{1, 272, 273, 274, 4095, 4096, 4097, 65535, 65536, 65537}
	for i, c1 := range cuts {
		add(XZWCase{Cfg: XZCfg{DictCap: 4096, BufSize: 273}, Shape: long, Parts: []int{c1}})
		for _, c2 := range cuts[i:] {
			add(XZWCase{Cfg: XZCfg{DictCap: 65536, BlockSize: 65536}, Shape: long, Parts: []int{c1, c2 - c1 + 1, 0}})
		}
	}
	// (f) call histories: all sequences over {w small, w empty, w big, Close} up to length 4 (5)
	depth := 4
	if th {
		depth = 5
	}
	sizes := []int{10, 0, 70000, -1}
	var rec func(pref []int)
	rec = func(pref []int) {
		if len(pref) > 0 {
			hasClose := false
			for _, v := range pref {
				if v < 0 {
					hasClose = true
				}
			}
			if hasClose {
				for m := 0; m < 2; m++ {
					add(XZWCase{Cfg: XZCfg{DictCap: 65536, Matcher: m, BlockSize: 50000}, Shape: []Seg{{K: "T", Seed: 11, N: 30}, {K: "R", Seed: 10, N: 400000}}, Parts: append([]int{}, pref...)})
				}
			}
		}
		if len(pref) == depth {
			return
		}
		for _, s := range sizes {
			rec(append(pref, s))
		}
	}
	rec(nil)
	// (s) environment family: depth-1 shapes x {one block, several blocks} x two checks, the input
	// handed over by Write and by io.Copy from four kinds of bare reader, into four kinds of sink;
	// every stream decoded through five kinds of source. Dictionary capacities 3*2^n with the
	// bufio.Writer sink (the sink gxz uses) are part of it.
	for si, sg := range menu1 {
		for _, blk := range []int64{0, 3000} {
			for _, ck := range []byte{1, 4} {
				for feed := 0; feed < nFeedModes; feed++ {
					for sk := 0; sk < 5; sk++ {
						c := XZCfg{DictCap: 4096, BlockSize: blk, Check: ck}
						if (si+feed+sk)%3 == 1 {
							c.DictCap = 6144
						}
						if (si+feed+sk)%5 == 2 && len(buildShapeLen(sg)) <= 5000 {
							c.Matcher = 1
						}
						add(XZWCase{Cfg: c, Shape: []Seg{sg}, Env: true, Feed: feed, Sink: sk})
					}
				}
			}
		}
	}
	return cases
}

func buildShapeLen(s Seg) []byte { return buildShape([]Seg{s}) }

func runXZW(r *core.Run, prop string) {
	bindRef(r)
	cases := c01Cases(r, prop)
	r.Extra("cases_enumerated", len(cases))
	r.Extra("liblzma_second_opinion", prop == "C02" && liblzmaAvailable())
	for _, i := range []int{0, len(cases) / 3, len(cases) / 2, len(cases) - 1} {
		c := cases[i]
		r.Sample(map[string]interface{}{"cfg": c.Cfg.String(), "input": shapeString(c.Shape), "parts": c.Parts})
	}
	// heavy cases first for better packing
	r.Parallel(len(cases), "xz writer cases", func(i int) { xzWriteCase(r, prop, cases[i]) })
}

func runC01(r *core.Run) {
	r.Rule = "enumeration of the writer space: (a) all strings over {00,'a','b'} up to length n, alone / before / after a compressible tail, x both matchers x property corners; (b) all 75 lc/lp/pb sets x matchers x 8 inputs; (c) DictCap x BufSize x BlockSize(incl. 1, len-1, len, len+1) x 5 checks x matchers x depth-1 shapes; (d) all shape lists of depth 2 (3 when thorough) incl. 64KiB/2MiB chunk limits; (e) all compositions of 6-byte inputs into Write calls + zero-length writes + boundary cuts; (f) all call histories over {Write small, Write empty, Write 70000, Close} up to depth 4 (5); (s) environment family: depth-1 shapes x {one, several blocks} x input handed over by Write / io.Copy from four kinds of bare reader x five kinds of sink (bare, io.ByteWriter, *bytes.Buffer, *bufio.Writer, *os.File), each stream decoded through five kinds of source. Oracle: calls succeed, library reader returns the input then io.EOF, calls after Close fail and emit nothing. states = (blocks, chunks, first chunk kind) classes of the emitted stream; transitions = chunk-automaton steps and call-history prefixes observed; non-trivial = distinct (result class, history length) pairs"
	runXZW(r, "C01")
	r.Assume("BinaryTree cases use dictionaries <= 64 KiB and low-entropy segments <= 64 KiB (quadratic matcher, cost bound)")
}

func runC02(r *core.Run) {
	r.Rule = "same writer space as C01 (a)-(d); every stream the writer declared complete is parsed and decoded by the independent reference (.xz container fields, CRCs, index, backward size, padding, LZMA2 chunk automaton, distances <= declared dictionary, block-size rule) and by liblzma when present; states/transitions = reference chunk automaton states and (state,chunk kind) steps visited by the parsed outputs"
	runXZW(r, "C02")
	r.Assume("reference decoder bound to liblzma by the frozen corpus; liblzma (python lzma) used as live second opinion when present")
}
