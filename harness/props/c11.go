package props

import (
	"bytes"
	"encoding/binary"
	"fmt"
	"sync"

	"verif/core"
	"verif/ref"
)

// C11 — readers never panic or stall on arbitrary input (bounded-exhaustive analogue).

type C11Case struct {
	Fmt    string
	Base   string    `json:",omitempty"` // base stream name ("" = raw bytes)
	Prefix int       `json:",omitempty"` // structural prefix length of the base kept before Tail
	Tail   []byte    `json:",omitempty"`
	Muts   []ByteMut `json:",omitempty"`
	Edit   string    `json:",omitempty"`
	Gen    string    `json:",omitempty"` // generated guard-violating stream id
	Data   []byte    `json:",omitempty"` // literal input (small raw cases)
	Src    int       `json:",omitempty"` // kind of source the reader is given (sourceOf in envkinds.go)
}

func init() {
	register(&Check{ID: "C11", Level: "fault_enumeration", Run: runC11})
	scenario("C11", "input", func(r *core.Run, c core.Case) {
		var p C11Case
		params(c, &p)
		data, ok := c11Build(p, c11Bases())
		if ok {
			c11Judge(r, p, data)
		}
	})
}

func c11Bases() map[string]Stream {
	m := map[string]Stream{}
	for _, s := range readerStreams(1) {
		m[s.Name] = s
	}
	// streams from fixed operation walks (every operation kind, trained contexts): a corrupted byte
	// in the range-coded data steers the decoder through all codecs with unusual values
	for _, w := range walkStreams() {
		m[w.Name] = w
	}
	return m
}

func c11Build(p C11Case, bases map[string]Stream) ([]byte, bool) {
	if p.Gen != "" {
		d, ok := c11Gen()[p.Gen]
		return d, ok
	}
	var data []byte
	if p.Base != "" {
		s, ok := bases[p.Base]
		if !ok {
			return nil, false
		}
		data = s.Data
		if p.Edit != "" {
			m, err := xzModelOf(s.Data)
			if err != nil {
				return nil, false
			}
			done := false
			for _, e := range structEdits(8) {
				if e.Name == p.Edit {
					if !e.apply(m) {
						return nil, false
					}
					done = true
				}
			}
			if !done {
				return nil, false
			}
			data = m.emit()
		}
		if p.Tail != nil {
			data = append(append([]byte(nil), data[:p.Prefix]...), p.Tail...)
		}
		for _, mu := range p.Muts {
			pos := mu.Pos
			if mu.Kind == "flip" || mu.Kind == "burst" {
				pos /= 8
			}
			if pos > len(data) || (pos == len(data) && mu.Kind != "ins" && mu.Kind != "trunc") {
				return nil, false
			}
			data = mu.apply(data)
		}
		return data, true
	}
	return p.Data, true
}

// c11DeclaresHugeDict: pre-check on the bytes — inputs whose header declares a
// dictionary above 64 MiB are outside the property's domain.
func c11DeclaresHugeDict(format string, data []byte) bool {
	switch format {
	case "lzma":
		return len(data) >= 5 && binary.LittleEndian.Uint32(data[1:5]) > 64<<20
	case "xz":
		for i := 0; i+2 < len(data); i++ {
			if data[i] == 0x21 && data[i+1] == 1 && data[i+2] > 28 && data[i+2] <= 40 {
				return true
			}
		}
	}
	return false
}

func c11Judge(r *core.Run, p C11Case, data []byte) {
	if c11DeclaresHugeDict(p.Fmt, data) {
		r.Count("skipped_declared_dictionary_above_64MiB", 1)
		return
	}
	cs := core.MkCase("C11", "input", p)
	id := r.Begin(cs, p.Fmt+"R stall")
	var out []byte
	var err error
	var proto string
	var pan *core.PanicInfo
	switch p.Fmt {
	case "xz":
		out, err, proto, pan = c11Decode("xz", data, p.Src)
	case "lzma2":
		out, err, proto, pan = c11Decode("lzma2", data, p.Src)
	default:
		out, err, proto, pan = c11Decode("lzma", data, p.Src)
	}
	r.End(id)
	desc := fmt.Sprintf("%s reader on %d bytes: base=%q prefix=%d tail=%x muts=%v edit=%q gen=%q source=%s", p.Fmt, len(data), p.Base, p.Prefix, p.Tail, p.Muts, p.Edit, p.Gen, sourceKindNames[p.Src])
	cls := errClass(err)
	switch {
	case pan != nil:
		r.Violate(cs, p.Fmt+"R panic@"+pan.Site(), desc, pan.Value+" | "+pan.Stack, "data, end of stream or an error value")
		cls = "panic"
	case proto == "output-cap":
		r.Count("output_cap_reached", 1)
	case proto != "":
		r.Violate(cs, p.Fmt+"R protocol: "+proto[:minInt(len(proto), 20)], desc, proto, "n <= len(p); no endless (0,nil)")
	}
	r.Eval(core.Hash(p.Fmt, cls, len(out)))
	r.Nontrivial(core.Hash(p.Fmt, cls, len(out)))
}

func c11Decode(format string, data []byte, src ...int) (out []byte, err error, proto string, pan *core.PanicInfo) {
	sk := 0
	if len(src) > 0 {
		sk = src[0]
	}
	pan = core.Guard(func() {
		rd, e := openReader(format, sourceOf(sk, data))
		if e != nil {
			err = e
			return
		}
		out, err, proto = readAll(rd, 1000, 64<<20)
		// the outcome of each call is data, end of stream or an error value: also for calls
		// issued after the first error / end of stream
		buf := make([]byte, 16)
		for i := 0; i < 3 && proto == ""; i++ {
			n, _ := rd.Read(buf[:(i*7)%16+1])
			if n > (i*7)%16+1 {
				proto = "Read after the final status returned n > len(p)"
			}
		}
	})
	return
}

// c11Gen builds streams from operation sequences with exactly one format guard violated.
var c11GenOnce sync.Once
var c11GenMemo map[string][]byte

func c11Gen() map[string][]byte {
	c11GenOnce.Do(func() { c11GenMemo = c11GenBuild() })
	return c11GenMemo
}

func c11GenBuild() map[string][]byte {
	out := map[string][]byte{}
	p := ref.Props{LC: 3, LP: 0, PB: 2}
	base := []ref.Op{{Kind: ref.OpLit, Byte: 'a'}, {Kind: ref.OpLit, Byte: 'b'}, {Kind: ref.OpLit, Byte: 'c'}, {Kind: ref.OpMatch, Len: 4, Dist: 2}}
	bad := map[string][]ref.Op{
		"dist-beyond-window":        append(append([]ref.Op(nil), base...), ref.Op{Kind: ref.OpMatch, Len: 3, Dist: 8}),
		"dist-far-beyond":           append(append([]ref.Op(nil), base...), ref.Op{Kind: ref.OpMatch, Len: 273, Dist: 0xFFFFFFFE}),
		"first-op-match":            {{Kind: ref.OpMatch, Len: 2, Dist: 1}},
		"first-op-shortrep":         {{Kind: ref.OpShortRep}},
		"first-op-rep0":             {{Kind: ref.OpRep0, Len: 5}},
		"eos-in-the-middle":         append(append(append([]ref.Op(nil), base...), ref.Op{Kind: ref.OpEOS}), base...),
		"rep3-beyond-window":        {{Kind: ref.OpLit, Byte: 'x'}, {Kind: ref.OpRep3, Len: 2}, {Kind: ref.OpMatch, Len: 2, Dist: 3}},
		"dist-equals-dict-boundary": append(append([]ref.Op(nil), base...), ref.Op{Kind: ref.OpMatch, Len: 2, Dist: 4097}),
	}
	// distances beyond the declared dictionary but inside the total decoded length, after
	// the 4 KiB window has wrapped more than once
	long := []ref.Op{{Kind: ref.OpLit, Byte: 'x'}, {Kind: ref.OpLit, Byte: 'y'}, {Kind: ref.OpLit, Byte: 'z'}}
	for n := 3; n < 9000; n += 250 {
		long = append(long, ref.Op{Kind: ref.OpMatch, Len: 250, Dist: 3})
	}
	for _, d := range []uint32{4097, 4200, 5000, 8999} {
		bad[fmt.Sprintf("dist-%d-beyond-4KiB-dict-after-wrap", d)] = append(append([]ref.Op(nil), long...), ref.Op{Kind: ref.OpMatch, Len: 273, Dist: d}, ref.Op{Kind: ref.OpLit, Byte: 'q'})
	}
	for name, ops := range bad {
		// LZMA2 chunk
		g := ref.NewLZMA2Gen()
		if _, err := g.Add(ref.ChunkSpec{Kind: ref.CLZMAFull, Ops: ops, Props: p, Force: true}); err == nil {
			g.Add(ref.ChunkSpec{Kind: ref.CEnd})
			out["lzma2/"+name] = g.Out
			out["xz/"+name] = ref.EncodeXZStream(ref.CheckCRC32, []ref.XZBlockSpec{{LZMA2: g.Out, Plain: g.Plain, DictCode: 0}})
			// length running over the declared size: shrink the uncompressed size field
			for _, k := range []int{1, 2, 5} {
				d := append([]byte(nil), g.Out...)
				un := int(d[1])<<8 | int(d[2])
				if un >= k {
					un -= k
					d[1], d[2] = byte(un>>8), byte(un)
					out[fmt.Sprintf("lzma2/%s/size-%d", name, k)] = d
				}
				d2 := append([]byte(nil), g.Out...)
				un2 := int(d2[1])<<8 | int(d2[2]) + k
				d2[1], d2[2] = byte(un2>>8), byte(un2)
				out[fmt.Sprintf("lzma2/%s/size+%d", name, k)] = d2
			}
		}
		// .lzma in the three modes, encoder forced
		for mode := 0; mode < 3; mode++ {
			m := ref.NewModel(p)
			win := &ref.Window{}
			e := ref.NewEncoder(m, win)
			for _, op := range ops {
				e.Put(op, true)
			}
			if mode != 1 {
				e.Put(ref.Op{Kind: ref.OpEOS}, true)
			}
			body := e.Finish()
			h := make([]byte, 13)
			h[0] = p.Code()
			binary.LittleEndian.PutUint32(h[1:], 4096)
			if mode == 0 {
				binary.LittleEndian.PutUint64(h[5:], ^uint64(0))
			} else {
				binary.LittleEndian.PutUint64(h[5:], uint64(len(win.Buf)))
			}
			out[fmt.Sprintf("lzma/%s/mode%d", name, mode)] = append(h, body...)
			if mode != 0 {
				for _, k := range []int64{-1, 1, 300} {
					h2 := append([]byte(nil), h...)
					binary.LittleEndian.PutUint64(h2[5:], uint64(int64(len(win.Buf))+k))
					out[fmt.Sprintf("lzma/%s/mode%d/size%+d", name, mode, k)] = append(h2, body...)
				}
			}
		}
	}
	// (e) legal raw-chunk sequences at the limit of the reader's 4 KiB dictionary: a first chunk of
	// capacity-1 / capacity / capacity+1 bytes followed by a second chunk with or without a
	// dictionary reset of 1 / capacity / capacity+100 bytes (the window is exactly full, then rewound)
	for _, a := range []int{4095, 4096, 4097} {
		for _, k2 := range []ref.ChunkKind{ref.CRawReset, ref.CRaw} {
			for _, b := range []int{1, 4096, 4196} {
				g := ref.NewLZMA2Gen()
				mk := func(n int, seed byte) []byte {
					q := make([]byte, n)
					for i := range q {
						q[i] = seed + byte(i*7)
					}
					return q
				}
				if _, err := g.Add(ref.ChunkSpec{Kind: ref.CRawReset, Raw: mk(a, 1)}); err != nil {
					continue
				}
				if _, err := g.Add(ref.ChunkSpec{Kind: k2, Raw: mk(b, 2)}); err != nil {
					continue
				}
				g.Add(ref.ChunkSpec{Kind: ref.CEnd})
				id := fmt.Sprintf("limit-raw-%d-then-kind%d-%d", a, int(k2), b)
				out["lzma2/"+id] = g.Out
				out["xz/"+id] = ref.EncodeXZStream(ref.CheckCRC32, []ref.XZBlockSpec{{LZMA2: g.Out, Plain: g.Plain, DictCode: 0}})
			}
		}
	}
	return out
}

func runC11(r *core.Run) {
	bindRef(r)
	th := thorough(r)
	r.Rule = "bounded-exhaustive analogue of 'arbitrary input': (a) EVERY byte string of length <=2 and every string over {00,01,7F,80,FF,FD,21} of length <=4, raw and appended to every structural prefix of valid streams (plus runs of 4..9 bytes 00 / FF; the tails of length <=1 and the runs also through bufio sources with 16-byte / default buffer and a source delivering data together with io.EOF), for all three readers; (b) per base stream: every single-byte substitution with all 255 other values, every pair of substitutions inside the header regions with a 6-value menu, every deletion / insertion / truncation, boundary values written into every 2-/4-/8-byte field position; (c) every field-level edit of the structural mutator with CRC32s re-sealed; (d) generated operation sequences with one format guard violated (distance beyond the window, first op a match/rep, EOS in the middle, size field off by k) in LZMA2, .xz and .lzma (three modes). Oracle: no panic, n<=len(p), <=64 consecutive (0,nil), output cap 64 MiB, 30 s watchdog. non-trivial = distinct (format, outcome class, bytes delivered)"
	bases := c11Bases()
	var cases []C11Case
	// (a) short strings
	var shorts [][]byte
	shorts = append(shorts, []byte{})
	for a := 0; a < 256; a++ {
		shorts = append(shorts, []byte{byte(a)})
	}
	for a := 0; a < 256; a++ {
		for b := 0; b < 256; b++ {
			shorts = append(shorts, []byte{byte(a), byte(b)})
		}
	}
	red := []byte{0x00, 0x01, 0x7F, 0x80, 0xFF, 0xFD, 0x21}
	var rec func(p []byte)
	rec = func(p []byte) {
		if len(p) >= 3 {
			shorts = append(shorts, append([]byte(nil), p...))
		}
		if len(p) == 4 {
			return
		}
		for _, c := range red {
			rec(append(p, c))
		}
	}
	rec(nil)
	for _, f := range []string{"xz", "lzma2", "lzma"} {
		for _, s := range shorts {
			cases = append(cases, C11Case{Fmt: f, Data: s})
		}
	}
	// structural prefixes + tails
	tails := shorts
	if !th {
		tails = shorts[:257] // length <= 1 in quick; length 2 + reduced strings when thorough
		for _, s := range shorts[65793:] {
			if len(s) == 3 {
				tails = append(tails, s)
			}
		}
	}
	// runs of 4..9 zero bytes (one or two words of stream padding plus a rest) and of 0xFF
	for k := 4; k <= 9; k++ {
		tails = append(tails, make([]byte, k), bytes.Repeat([]byte{0xFF}, k))
	}
	names := []string{"lib-xz-3blocks-crc32", "ref-xz-allchunks-crc32-sizes", "lib-lzma2-raw+lzma", "ref-lzma2-allchunks", "lib-lzma-eos", "lib-lzma-size", "lib-lzma-size0", "lib-lzma-size0+eos"}
	for _, nm := range names {
		s := bases[nm]
		sm := newSiteMap(s)
		prev := ""
		for k := 0; k <= len(s.Data); k++ {
			site := sm.at(minInt(k, len(s.Data)))
			if site == prev && k != len(s.Data) {
				continue
			}
			prev = site
			for _, t := range tails {
				cases = append(cases, C11Case{Fmt: s.Fmt, Base: nm, Prefix: k, Tail: t})
				if len(t) <= 1 || (len(t) >= 3 && bytes.Count(t, t[:1]) == len(t)) {
					// also through buffered sources (Peek / Discard / Buffered) and with data delivered
					// together with io.EOF
					for _, sk := range []int{1, 2, 5} {
						cases = append(cases, C11Case{Fmt: s.Fmt, Base: nm, Prefix: k, Tail: t, Src: sk})
					}
				}
			}
		}
	}
	// (b) point mutations
	seeds := []string{"lib-xz-1block-crc64", "lib-xz-3blocks-crc32", "ref-xz-allchunks-crc32-sizes", "lib-xz-nocheck", "lib-lzma2-flushes", "lib-lzma2-raw+lzma", "ref-lzma2-allchunks", "lib-lzma-eos", "lib-lzma-size", "lib-lzma-size+eos", "ref-lzma-lc8lp4pb4-size", "lib-lzma-size0", "lib-lzma-size0+eos", "lib-lzma-empty-eos"}
	seeds = append(seeds, "ref-xz-2blocks-crc64-extrapad", "lib-xz-sha256-2blocks", "lib-lzma2-bt-lc0lp4", "ref-lzma-lc8lp4pb4-eos") // both tiers
	seeds = append(seeds, "walk-lzma2", "walk-lzma")
	if th {
		seeds = append(seeds, "walk-xz") // (a flipped payload byte in .xz is mostly stopped by the block check)
	}
	menu := []byte{0x00, 0x01, 0x7F, 0x80, 0xFF, 0x21}
	for _, nm := range seeds {
		s, ok := bases[nm]
		if !ok {
			panic("C11: unknown seed " + nm)
		}
		for k := 0; k < len(s.Data); k++ {
			for v := 0; v < 256; v++ {
				if byte(v) == s.Data[k] {
					continue
				}
				cases = append(cases, C11Case{Fmt: s.Fmt, Base: nm, Muts: []ByteMut{{Kind: "sub", Pos: k, Val: byte(v)}}})
			}
			cases = append(cases, C11Case{Fmt: s.Fmt, Base: nm, Muts: []ByteMut{{Kind: "del", Pos: k}}}, C11Case{Fmt: s.Fmt, Base: nm, Muts: []ByteMut{{Kind: "trunc", Pos: k}}})
			for pat := 0; pat < 3; pat++ {
				cases = append(cases, C11Case{Fmt: s.Fmt, Base: nm, Muts: []ByteMut{{Kind: "ins", Pos: k, Pat: pat}}})
			}
		}
		// "interesting values" written into 2-, 4- and 8-byte fields at every offset (size fields,
		// dictionary sizes, chunk sizes: little- and big-endian)
		for k := 0; k < len(s.Data); k++ {
			for _, w := range []uint64{0, 1, 0x7F, 0x80, 0xFF, 0x100, 0x7FFF, 0x8000, 0xFFFF} {
				cases = append(cases, C11Case{Fmt: s.Fmt, Base: nm, Muts: []ByteMut{{Kind: "setbe", Pos: k, Len: 2, W: w}}})
			}
			for _, w := range []uint64{0, 1, 0xFFFF, 0x10000, 0x7FFFFFFF, 0x80000000, 0xFFFFFFFF} {
				cases = append(cases, C11Case{Fmt: s.Fmt, Base: nm, Muts: []ByteMut{{Kind: "setle", Pos: k, Len: 4, W: w}}})
			}
			if k < 24 {
				for _, w := range []uint64{0, 1, 1 << 32, 1<<63 - 1, 1 << 63, 1<<64 - 1} {
					cases = append(cases, C11Case{Fmt: s.Fmt, Base: nm, Muts: []ByteMut{{Kind: "setle", Pos: k, Len: 8, W: w}}})
				}
			}
		}
		hdr := 24
		if s.Fmt == "lzma" {
			hdr = 18
		}
		if s.Fmt == "lzma2" {
			hdr = 11
		}
		if hdr > len(s.Data) {
			hdr = len(s.Data)
		}
		for i := 0; i < hdr; i++ {
			for j := i + 1; j < hdr; j++ {
				for _, a := range menu {
					for _, b := range menu {
						if a == s.Data[i] || b == s.Data[j] {
							continue
						}
						cases = append(cases, C11Case{Fmt: s.Fmt, Base: nm, Muts: []ByteMut{{Kind: "sub", Pos: i, Val: a}, {Kind: "sub", Pos: j, Val: b}}})
					}
				}
			}
		}
	}
	// (b2) thorough: every PAIR of substitutions over the whole stream (6-value menu) for the raw
	// LZMA2 and .lzma seeds (no check sum in front of the decoder: both bytes reach it)
	if th {
		for _, nm := range []string{"lib-lzma2-flushes", "ref-lzma2-allchunks", "lib-lzma-eos", "lib-lzma-size+eos", "walk-lzma"} {
			s, ok := bases[nm]
			if !ok {
				panic("C11: unknown seed " + nm)
			}
			lim := len(s.Data)
			if lim > 260 {
				lim = 260
			}
			for i := 0; i < lim; i++ {
				for j := i + 1; j < lim; j++ {
					for _, a := range menu {
						for _, b := range menu {
							if a == s.Data[i] || b == s.Data[j] {
								continue
							}
							cases = append(cases, C11Case{Fmt: s.Fmt, Base: nm, Muts: []ByteMut{{Kind: "sub", Pos: i, Val: a}, {Kind: "sub", Pos: j, Val: b}}})
						}
					}
				}
			}
		}
	}
	// (c) structural edits
	for nm, s := range bases {
		if s.Fmt != "xz" || s.ValidCuts != nil {
			continue
		}
		x := ref.DecodeXZ(s.Data, ref.XZOptions{})
		for _, e := range structEdits(len(x.Streams[0].Blocks)) {
			cases = append(cases, C11Case{Fmt: "xz", Base: nm, Edit: e.Name})
		}
	}
	// (d) guard violations
	gen := c11Gen()
	for id := range gen {
		f := id[:bytes.IndexByte([]byte(id), '/')]
		cases = append(cases, C11Case{Fmt: f, Gen: id})
	}
	r.Extra("cases", len(cases))
	r.Extra("guard_violation_streams", len(gen))
	r.Sample(map[string]interface{}{"fmt": "xz", "input": "fd 37 (every 2-byte string)"})
	r.Sample(cases[len(cases)/2])
	r.Sample(map[string]interface{}{"gen": "lzma2/dist-beyond-window/size-1"})
	r.Parallel(len(cases), "inputs", func(i int) {
		data, ok := c11Build(cases[i], bases)
		if ok {
			c11Judge(r, cases[i], data)
		}
	})
	r.Assume("loss versus the property's quantifier: inputs more than two point mutations away from a seed or a grammar trace are not reached (coverage-guided fuzzing is a different family)")
	r.Assume("inputs declaring a dictionary above 64 MiB are skipped by a pre-check on the bytes and counted")
}
