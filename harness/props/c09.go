package props

import (
	"bytes"
	"errors"
	"fmt"
	"io"
	"strings"

	"github.com/ulikunitz/xz"
	"github.com/ulikunitz/xz/lzma"

	"verif/core"
	"verif/ref"
)

// C09 — I/O failures are never masked.

var errInjected = errors.New("verif: injected I/O failure")

type faultSink struct {
	buf     []byte
	call    int
	failAt  int
	failAt2 int // second once-failure (0: none; always > failAt)
	forever bool
	half    bool
	failed  bool
	offs    []int // sink offset at the start of each call (fault-free run)
}

func (s *faultSink) fail(k int) bool {
	if s.failAt < 0 {
		return false
	}
	return k == s.failAt || (s.forever && k > s.failAt) || (s.failAt2 > 0 && k == s.failAt2)
}

func (s *faultSink) Write(p []byte) (int, error) {
	k := s.call
	s.call++
	s.offs = append(s.offs, len(s.buf))
	if s.fail(k) {
		s.failed = true
		n := 0
		if s.half {
			n = len(p) / 2
			s.buf = append(s.buf, p[:n]...)
		}
		return n, errInjected
	}
	s.buf = append(s.buf, p...)
	return len(p), nil
}

// faultByteSink additionally implements io.ByteWriter (the classic LZMA writer
// then bypasses bufio and emits byte by byte).
type faultByteSink struct{ faultSink }

func (s *faultByteSink) WriteByte(c byte) error {
	k := s.call
	s.call++
	s.offs = append(s.offs, len(s.buf))
	if s.fail(k) {
		s.failed = true
		return errInjected
	}
	s.buf = append(s.buf, c)
	return nil
}

// faultFlushSink: a sink that also has a Flush() error method (like a *bufio.Writer) but keeps no
// sticky error: after the one injected failure it works again.
type faultFlushSink struct{ *faultSink }

func (s *faultFlushSink) Flush() error { return nil }

// faultRichSink: a sink that also implements io.StringWriter and io.ReaderFrom; both go through the
// same fault logic as Write.
type faultRichSink struct{ *faultSink }

func (s *faultRichSink) WriteString(x string) (int, error) { return s.Write([]byte(x)) }

func (s *faultRichSink) ReadFrom(r io.Reader) (int64, error) {
	var total int64
	buf := make([]byte, 512)
	for {
		n, err := r.Read(buf)
		if n > 0 {
			k, werr := s.Write(buf[:n])
			total += int64(k)
			if werr != nil {
				return total, werr
			}
		}
		if err == io.EOF {
			return total, nil
		}
		if err != nil {
			return total, err
		}
	}
}

type C09W struct {
	Writer  string // xzW, lzma2W, lzmaW-bufio, lzmaW-bytewriter
	FailAt  int
	Forever bool
	Half    bool
	Retry   bool `json:",omitempty"` // enumerated histories: a call that returned an error is issued once more (Write: with the bytes not yet accepted)
	FailAt2 int  `json:",omitempty"` // deviation bound 2: a second sink call that fails once (index in the run with the first fault)
	// SinkKind: 0 a bare io.Writer; 1 additionally a Flush() error method (no sticky error); 2 additionally
	// io.StringWriter and io.ReaderFrom
	SinkKind int `json:",omitempty"`
	// Feed > 0 (fixed histories xzW*, lzma2W, classic): the second half of the input is handed over by
	// io.Copy from a bare reader (feedOf: 2 last bytes together with io.EOF, 3 short reads) instead of
	// a Write call; io.Copy uses the writer's ReadFrom when it offers one
	Feed int `json:",omitempty"`
}

type C09R struct {
	Stream   string
	Level    int // -2: long stream family
	FailAt   int
	WithData bool
	Buf      int
	Single   bool `json:",omitempty"` // xz reader with SingleStream set (it probes for a following byte)
	Once     bool `json:",omitempty"` // the source fails once at the offset and answers normally afterwards (transient failure)
	Drain    int  `json:",omitempty"` // how the caller takes the data out (drainOf): 1 / 2 io.Copy (uses a WriteTo method of the reader when there is one)
	Trail    bool `json:",omitempty"` // SingleStream reader on a file with padding and a second stream behind the first: the end of the stream may never be reported
}

func init() {
	register(&Check{ID: "C09", Level: "fault_enumeration", Run: runC09})
	scenario("C09", "writer", func(r *core.Run, c core.Case) {
		var p C09W
		params(c, &p)
		base := c09Writer(nil, C09W{Writer: p.Writer, FailAt: -1})
		c09WriterJudge(r, p, base)
	})
	scenario("C09", "reader", func(r *core.Run, c core.Case) {
		var p C09R
		params(c, &p)
		ss := longStreams()
		if p.Level >= 0 {
			ss = readerStreams(p.Level)
		}
		if p.Level == -3 {
			ss = finalOpStreams()
		}
		for _, s := range ss {
			if s.Name == p.Stream {
				c09Reader(r, s, p)
			}
		}
	})
}

type c09Run struct {
	failCall int // index of the public call during which the sink first failed (-1 none)
	calls    []callRes
	sink     []byte
	offs     []int
	failed   bool
	pan      *core.PanicInfo
	input    []byte
	fmt      string
}

func c09Input(writer string) []byte {
	switch writer {
	case "xzW", "xzW-crc64", "xzW-sha256", "xzW-none":
		return append(append([]byte(nil), baseText[:100]...), randBytes(4, 80)...)
	case "lzmaW-size-eos":
		return append(randBytes(7, 5000), textBytes(3, 2000)...)
	case "lzma2W":
		return append(append([]byte(nil), baseText[:90]...), randBytes(6, 70)...)
	case "lzmaW-bufio":
		return append(randBytes(7, 9000), textBytes(3, 3000)...)
	case "lzmaW-bytewriter":
		// long enough for the range coder's carry handling to hold back runs of several bytes
		// (about one output byte in 250 ends such a run)
		return append(randBytes(11, 6000), textBytes(5, 3000)...)
	case "lzma2W-wrap":
		return randBytes(8, 15000)
	case "xzW-blockspan":
		return append(randBytes(9, 100000), textBytes(9, 50000)...)
	case "lzma2W-fullchunk", "xzW-fullchunk":
		// exactly one full chunk (2 MiB uncompressed) in the first Write: its flush happens inside
		// that call, and a failed flush leaves the writer with a full chunk pending
		return append(make([]byte, 1<<21), []byte("and some more data after the full chunk")...)
	}
	return baseText[:70]
}

// c09Writer runs the history {Write, Write, [Flush], Close, Close} on a fault-injecting sink.
// c09Hist runs an enumerated call history "H|<writer>|op,op,..." (ops: wS small text, wR 3000
// random bytes, wT 5000 bytes text, f Flush, c Close) on a fault-injecting sink.
func c09Hist(p C09W) c09Run {
	parts := strings.Split(p.Writer, "|")
	kind, ops := parts[1], strings.Split(parts[2], ",")
	res := c09Run{failCall: -1}
	fs := &faultSink{failAt: p.FailAt, failAt2: p.FailAt2, forever: p.Forever, half: p.Half}
	rec := func(call string, n, l int, err error) {
		if fs.failed && res.failCall < 0 {
			res.failCall = len(res.calls)
		}
		res.calls = append(res.calls, callRes{Call: call, N: n, Len: l, Err: err, Sink: len(fs.buf)})
	}
	payload := func(op string, i int) []byte {
		switch op {
		case "wS":
			return baseText[i*7 : i*7+40]
		case "wR":
			return randBytes(20+i, 3000)
		}
		return textBytes(20+i, 5000)
	}
	res.pan = core.Guard(func() {
		var w interface {
			Write([]byte) (int, error)
			Close() error
		}
		var flush func() error
		switch kind {
		case "lzma2":
			res.fmt = "lzma2"
			lw, err := lzma.Writer2Config{DictCap: 4096}.NewWriter2(fs)
			rec("NewWriter2", 0, 0, err)
			if err != nil {
				return
			}
			w, flush = lw, lw.Flush
		case "xz":
			res.fmt = "xz"
			xw, err := xz.WriterConfig{DictCap: 4096, BlockSize: 4000, CheckSum: xz.CRC32}.NewWriter(fs)
			rec("NewWriter", 0, 0, err)
			if err != nil {
				return
			}
			w = xw
		}
		closes := 0
		for i, op := range ops {
			switch op {
			case "f":
				if flush != nil {
					err := flush()
					rec("Flush", 0, 0, err)
					if err != nil && p.Retry {
						rec("Flush", 0, 0, flush())
					}
				}
			case "c":
				closes++
				if closes == 1 {
					err := w.Close()
					rec("Close", 0, 0, err)
					if err != nil && p.Retry {
						rec("Close2", 0, 0, w.Close())
					}
				} else {
					rec("Close2", 0, 0, w.Close())
				}
			default:
				q := payload(op, i)
				res.input = append(res.input, q...)
				n, err := w.Write(q)
				rec("Write", n, len(q), err)
				if err != nil && p.Retry && n >= 0 && n <= len(q) {
					n2, err2 := w.Write(q[n:])
					rec("Write", n2, len(q)-n, err2)
				}
			}
		}
	})
	res.sink, res.offs, res.failed = fs.buf, fs.offs, fs.failed
	return res
}

func c09Writer(r *core.Run, p C09W) c09Run {
	if strings.HasPrefix(p.Writer, "H|") {
		return c09Hist(p)
	}
	in := c09Input(p.Writer)
	res := c09Run{input: in}
	var fs *faultSink
	var sink io.Writer
	if p.Writer == "lzmaW-bytewriter" {
		bs := &faultByteSink{faultSink{failAt: p.FailAt, failAt2: p.FailAt2, forever: p.Forever, half: p.Half}}
		fs, sink = &bs.faultSink, bs
	} else {
		fs = &faultSink{failAt: p.FailAt, failAt2: p.FailAt2, forever: p.Forever, half: p.Half}
		sink = fs
		switch p.SinkKind {
		case 1:
			sink = &faultFlushSink{fs}
		case 2:
			sink = &faultRichSink{fs}
		}
	}
	res.failCall = -1
	rec := func(call string, n, l int, err error) {
		if fs.failed && res.failCall < 0 {
			res.failCall = len(res.calls)
		}
		res.calls = append(res.calls, callRes{Call: call, N: n, Len: l, Err: err, Sink: len(fs.buf)})
	}
	h := len(in) / 2
	second := func(w io.Writer, q []byte) (int, error) {
		if p.Feed > 0 {
			n, err := feedOf(w, q, p.Feed)
			return int(n), err
		}
		return w.Write(q)
	}
	res.pan = core.Guard(func() {
		switch p.Writer {
		case "xzW", "xzW-crc64", "xzW-sha256", "xzW-none":
			res.fmt = "xz"
			cfg := xz.WriterConfig{DictCap: 4096, BlockSize: 60, CheckSum: xz.CRC32}
			switch p.Writer {
			case "xzW-crc64":
				cfg.CheckSum = xz.CRC64
			case "xzW-sha256":
				cfg.CheckSum = xz.SHA256
			case "xzW-none":
				cfg.CheckSum, cfg.NoCheckSum = 0, true
			}
			w, err := cfg.NewWriter(sink)
			rec("NewWriter", 0, 0, err)
			if err != nil {
				return
			}
			n, err := w.Write(in[:h])
			rec("Write", n, h, err)
			n, err = second(w, in[h:])
			rec("Write", n, len(in)-h, err)
			rec("Close", 0, 0, w.Close())
			rec("Close2", 0, 0, w.Close())
		case "lzma2W-wrap":
			// raw chunks of 3000 bytes, each flushed: the third one straddles the wrap of the
			// 8 KiB encoder ring buffer and is copied with two sink writes
			res.fmt = "lzma2"
			w, err := lzma.Writer2Config{DictCap: 4096}.NewWriter2(sink)
			rec("NewWriter2", 0, 0, err)
			if err != nil {
				return
			}
			for off := 0; off < len(in); off += 3000 {
				n, err := w.Write(in[off : off+3000])
				rec("Write", n, 3000, err)
				rec("Flush", 0, 0, w.Flush())
			}
			rec("Close", 0, 0, w.Close())
			rec("Close2", 0, 0, w.Close())
		case "lzma2W-fullchunk":
			res.fmt = "lzma2"
			w, err := lzma.Writer2Config{DictCap: 4096}.NewWriter2(sink)
			rec("NewWriter2", 0, 0, err)
			if err != nil {
				return
			}
			n, err := w.Write(in[:1<<21])
			rec("Write", n, 1<<21, err)
			n, err = w.Write(in[1<<21:])
			rec("Write", n, len(in)-1<<21, err)
			rec("Flush", 0, 0, w.Flush())
			rec("Close", 0, 0, w.Close())
			rec("Close2", 0, 0, w.Close())
		case "xzW-fullchunk":
			res.fmt = "xz"
			w, err := xz.WriterConfig{DictCap: 4096, CheckSum: xz.CRC32}.NewWriter(sink)
			rec("NewWriter", 0, 0, err)
			if err != nil {
				return
			}
			n, err := w.Write(in[:1<<21])
			rec("Write", n, 1<<21, err)
			n, err = w.Write(in[1<<21:])
			rec("Write", n, len(in)-1<<21, err)
			rec("Close", 0, 0, w.Close())
			rec("Close2", 0, 0, w.Close())
		case "xzW-blockspan":
			// one Write spanning three blocks, chunks are flushed to the sink inside that call
			res.fmt = "xz"
			w, err := xz.WriterConfig{DictCap: 65536, BlockSize: 70000, CheckSum: xz.CRC32}.NewWriter(sink)
			rec("NewWriter", 0, 0, err)
			if err != nil {
				return
			}
			n, err := w.Write(in)
			rec("Write", n, len(in), err)
			rec("Close", 0, 0, w.Close())
			rec("Close2", 0, 0, w.Close())
		case "lzma2W":
			res.fmt = "lzma2"
			w, err := lzma.Writer2Config{DictCap: 4096}.NewWriter2(sink)
			rec("NewWriter2", 0, 0, err)
			if err != nil {
				return
			}
			n, err := w.Write(in[:h])
			rec("Write", n, h, err)
			rec("Flush", 0, 0, w.Flush())
			n, err = second(w, in[h:])
			rec("Write", n, len(in)-h, err)
			rec("Close", 0, 0, w.Close())
			rec("Close2", 0, 0, w.Close())
		default:
			res.fmt = "lzma"
			lc := lzma.WriterConfig{DictCap: 4096}
			if p.Writer == "lzmaW-size-eos" {
				lc.SizeInHeader, lc.Size, lc.EOSMarker = true, int64(len(in)), true
			}
			w, err := lc.NewWriter(sink)
			rec("NewWriter", 0, 0, err)
			if err != nil {
				return
			}
			n, err := w.Write(in[:h])
			rec("Write", n, h, err)
			n, err = second(w, in[h:])
			rec("Write", n, len(in)-h, err)
			rec("Close", 0, 0, w.Close())
			rec("Close2", 0, 0, w.Close())
		}
	})
	res.sink = fs.buf
	res.offs = fs.offs
	res.failed = fs.failed
	return res
}

func c09Decode(format string, data []byte) ([]byte, error) {
	switch format {
	case "xz":
		x := ref.DecodeXZ(data, ref.XZOptions{})
		return x.Out, x.Err
	case "lzma2":
		x := ref.DecodeLZMA2(data, 4096, false)
		if x.Err == nil && x.Consumed != len(data) {
			return x.Out, fmt.Errorf("trailing bytes")
		}
		return x.Out, x.Err
	}
	x := ref.DecodeAlone(data, false)
	return x.Out, x.Err
}

func c09WriterJudge(r *core.Run, p C09W, base c09Run) {
	cs := core.MkCase("C09", "writer", p)
	res := c09Writer(r, p)
	// site: what the fault-free run was writing at sink call k
	what := "?"
	if p.FailAt >= 0 && p.FailAt < len(base.offs) {
		sm := newSiteMap(Stream{Fmt: base.fmt, Data: base.sink, DictSize: 4096})
		what = sm.at(base.offs[p.FailAt])
	}
	mode := "once"
	if p.Forever {
		mode = "forever"
	}
	if p.Half {
		mode += "+partial"
	}
	if p.FailAt2 > 0 {
		mode += "+second-fault"
	}
	if p.Retry {
		mode += "+retry"
	}
	wname := p.Writer
	if strings.HasPrefix(wname, "H|") {
		wname = "hist-" + strings.Split(wname, "|")[1]
	}
	site := fmt.Sprintf("%s fail@%s mode=%s", wname, what, mode)
	desc := fmt.Sprintf("%s: sink call %d of %d fails (%s); history Write,Write,[Flush],Close,Close", p.Writer, p.FailAt, len(base.offs), mode)
	if p.Feed > 0 {
		site += " io.Copy"
		desc += "; second half of the input fed by " + feedModeNames[p.Feed]
	}
	if p.SinkKind > 0 {
		site += fmt.Sprintf(" sink-kind=%d", p.SinkKind)
		desc += []string{"", "; the sink also has a Flush() error method", "; the sink is also an io.StringWriter and io.ReaderFrom"}[p.SinkKind]
	}
	var hist []string
	reported := false
	// reported: the call during which the sink failed, or a later call up to and
	// including the first Close, returned non-nil. (A Close issued after a Close
	// that reported success only counts when the failure happened inside it.)
	closed := false
	for i, c := range res.calls {
		hist = append(hist, fmt.Sprintf("%s→%s", c.Call, errStr(c.Err)))
		if c.Err != nil && (!closed || i == res.failCall) && (res.failCall < 0 || i >= res.failCall || !res.failed) {
			reported = true
		}
		if c.Call == "Close" {
			closed = true
		}
	}
	cls := "ok"
	switch {
	case res.pan != nil:
		last := "constructor"
		if len(res.calls) > 0 {
			last = res.calls[len(res.calls)-1].Call
		}
		r.Violate(cs, site+" → panic(after "+last+")", desc, res.pan.Value+" | "+res.pan.Stack+" | history "+fmt.Sprint(hist), "no panic")
		cls = "panic"
	case res.failed && !reported:
		r.Violate(cs, site+" → all-nil", desc, fmt.Sprint(hist), "at least one of the constructor/Write/Flush/Close calls returns the failure")
		cls = "masked"
	case !reported:
		out, err := c09Decode(res.fmt, res.sink)
		if err != nil || !bytes.Equal(out, res.input) {
			r.Violate(cs, site+" → success-but-incomplete-stream", desc, fmt.Sprintf("all calls nil; reference: %v, %d bytes", err, len(out)), "complete valid stream")
			cls = "incomplete"
		}
	default:
		cls = "reported"
		// the reported error should be (or wrap) the injected one when it is the first failure
	}
	// a failing writer must also not report errors when nothing failed
	if !res.failed && reported && res.pan == nil {
		r.Violate(cs, site+" → spurious-error", desc, fmt.Sprint(hist), "no error without a sink failure")
	}
	h := core.Hash(p.Writer, cls, fmt.Sprint(hist))
	r.Eval(h)
	r.Nontrivial(h)
}

type faultSrc struct {
	data     []byte
	pos      int
	failAt   int
	withData bool
	hit      bool
	once     bool
}

func (s *faultSrc) Read(p []byte) (int, error) {
	if len(p) == 0 {
		return 0, nil
	}
	if s.once && s.hit {
		// transient failure: after the one failed call the source answers normally
		if s.pos >= len(s.data) {
			return 0, io.EOF
		}
		n := copy(p, s.data[s.pos:])
		s.pos += n
		return n, nil
	}
	if s.pos >= s.failAt {
		s.hit = true
		return 0, errInjected
	}
	n := len(p)
	if n > s.failAt-s.pos {
		n = s.failAt - s.pos
	}
	copy(p, s.data[s.pos:s.pos+n])
	s.pos += n
	if s.withData && s.pos == s.failAt {
		s.hit = true
		return n, errInjected
	}
	return n, nil
}

// firstStreamEnd returns the offset at which the first stream of a multi-stream file ends.
func firstStreamEnd(s Stream) int {
	first := len(s.Data)
	for k := range s.ValidCuts {
		if k < first {
			first = k
		}
	}
	return first
}

func c09Reader(r *core.Run, s Stream, p C09R) {
	cs := core.MkCase("C09", "reader", p)
	src := &faultSrc{data: s.Data, failAt: p.FailAt, withData: p.WithData, once: p.Once}
	if p.Trail {
		// the content a SingleStream reader may deliver is that of the first stream
		first := firstStreamEnd(s)
		plain, derr := c09Decode("xz", s.Data[:first])
		if derr != nil {
			panic("C09: first stream of " + s.Name + " does not decode: " + derr.Error())
		}
		s.Plain = plain
	}
	var out []byte
	var err error
	var proto string
	var rd io.Reader
	opened := false
	pan := core.Guard(func() {
		if p.Single {
			rd, err = xz.ReaderConfig{DictCap: 4096, SingleStream: true}.NewReader(src)
		} else {
			rd, err = openReader(s.Fmt, src)
		}
		if err != nil {
			return
		}
		opened = true
		out, err, proto = drainOf(rd, p.Drain, p.Buf, 1<<24)
	})
	desc := fmt.Sprintf("stream %s: source fails persistently at offset %d of %d (with data: %v), caller buffer %d, SingleStream=%v, drained by %s", s.Name, p.FailAt, len(s.Data), p.WithData, p.Buf, p.Single, drainModeNames[p.Drain])
	site := fmt.Sprintf("%sR source-fail@%s", s.Fmt, newSiteMap(s).at(minInt(p.FailAt, len(s.Data))))
	if p.Single {
		site = fmt.Sprintf("xzR(SingleStream) source-fail@%s", newSiteMap(s).at(minInt(p.FailAt, len(s.Data))))
		if p.FailAt == len(s.Data) || (p.Trail && p.FailAt == firstStreamEnd(s)) {
			site = "xzR(SingleStream) source-fail@after-the-stream"
		}
		if p.Trail {
			site += " (data follows)"
		}
	}
	if p.Once {
		site += " (transient)"
	}
	cls := errClass(err)
	switch {
	case pan != nil:
		r.Violate(cs, site+" → panic@"+pan.Site(), desc, pan.Value+" | "+pan.Stack, "the injected error")
		cls = "panic"
	case proto != "":
		r.Violate(cs, site+" → protocol", desc, proto, "the injected error")
	case !src.hit:
		// the reader finished without touching the failing offset: must be the regular result
		if cls != "EOF" || !bytes.Equal(out, s.Plain) {
			r.Violate(cs, site+" → wrong-result-without-fault", desc, fmt.Sprintf("%d bytes, %s", len(out), errStr(err)), "regular decode")
		}
		cls = "not-reached"
	case cls == "EOF" && p.FailAt == len(s.Data) && bytes.Equal(out, s.Plain) && !p.Single:
		// every byte of the stream was delivered (the error accompanied or followed the
		// last one); a reader of a self-terminating format may not need another read
		cls = "complete-before-fault"
	case err == nil || cls == "EOF":
		r.Violate(cs, site+" → clean-EOF", desc, fmt.Sprintf("%d bytes then %s", len(out), errStr(err)), "the injected error (or one wrapping it)")
	case !errors.Is(err, errInjected):
		r.Violate(cs, site+" → other-error", desc, errStr(err), "the injected error (or one wrapping it)")
	}
	if pan == nil && opened && err != nil && err != io.EOF && proto == "" {
		// the caller goes on reading after the failure (three more rounds): no call may panic, and
		// the end of the stream may be reported only when the whole content has been delivered
		var out2 []byte
		var err2 error
		var proto2 string
		pan2 := core.Guard(func() {
			for i := 0; i < 3; i++ {
				var o []byte
				o, err2, proto2 = readAll(rd, p.Buf, 1<<24)
				out2 = append(out2, o...)
				if !errors.Is(err2, errInjected) {
					// the end, or an error of the reader itself (which has then been reported: the
					// readers keep no sticky error, so reading on after it is not constrained)
					break
				}
			}
		})
		switch {
		case pan2 != nil:
			r.Violate(cs, site+" → panic-on-read-after-error@"+pan2.Site(), desc, pan2.Value+" | "+pan2.Stack, "no panic")
			cls += "+panic"
		case proto2 != "":
			r.Violate(cs, site+" → protocol-after-error", desc, proto2, "an error or the rest of the content")
		case err2 == io.EOF && p.Trail:
			r.Violate(cs, site+" → trailing-data-unreported-on-read-after-error", desc, fmt.Sprintf("%d+%d bytes delivered, then io.EOF", len(out), len(out2)), "an error: data follows the first stream")
			cls += "+eof"
		case err2 == io.EOF && s.Fmt == "lzma" && p.Once:
			// the classic reader keeps no sticky error and the range decoder has already shifted its
			// range when the byte read fails: a retry after a transient failure decodes from a damaged
			// state. The property speaks of the call that meets the failure (it returned the error);
			// what a retried classic reader delivers is not constrained by it.
			cls += "+retry-unconstrained"
		case err2 == io.EOF && !bytes.Equal(append(append([]byte(nil), out...), out2...), s.Plain):
			r.Violate(cs, site+" → clean-EOF-on-read-after-error", desc, fmt.Sprintf("%d+%d bytes of %d delivered, then io.EOF", len(out), len(out2), len(s.Plain)), "an error, or the complete content before io.EOF")
			cls += "+eof"
		case err2 == io.EOF:
			cls += "+resumed"
		}
	}
	if pan == nil && !bytes.HasPrefix(s.Plain, out) {
		r.Violate(cs, site+" → non-prefix-output", desc, fmt.Sprintf("%d bytes, first difference at %d", len(out), firstDiff(out, s.Plain)), "a prefix of the content")
	}
	h := core.Hash(s.Name, cls, len(out), p.Single, p.Trail)
	r.Eval(h)
	r.Nontrivial(h)
}

func runC09(r *core.Run) {
	bindRef(r)
	level := 0
	if thorough(r) {
		level = 1
	}
	r.Rule = "writers (xz multi-block, LZMA2 with Flush, classic LZMA through bufio and through io.ByteWriter) with history Write,Write,[Flush],Close,Close (five of them also on a sink that has a Flush method and on one that is an io.StringWriter / io.ReaderFrom; four of them with the second half of the input handed over by io.Copy): EVERY index k of the sink's Write/WriteByte calls of the fault-free run x {once, forever} x {0 accepted, half accepted}; plus LZMA2 raw chunks across the ring-buffer wrap, one Write spanning blocks, a Write that fills a 2 MiB chunk exactly; readers (all formats, the xz reader also with SingleStream, with and without data behind the first stream): EVERY source offset k fails {persistently, once (transient)} x {error alone, error with the last bytes} x caller buffer {1,4096} (persistent faults also with the data taken out by io.Copy), and the caller goes on reading after the failure (no panic; end of stream only after the complete content); deviation bound 2 for sinks: every pair k1<k2 of once-failing sink calls on the short writer histories. non-trivial = distinct (subject, outcome class, call-result history / bytes delivered)"
	type job struct {
		w    *C09W
		base *c09Run
		s    *Stream
		rd   *C09R
	}
	var jobs []job
	ndouble := 0
	for _, wn := range []string{"xzW", "lzma2W", "lzmaW-bufio", "lzmaW-bytewriter", "lzma2W-wrap", "xzW-blockspan", "lzma2W-fullchunk", "xzW-fullchunk", "xzW-crc64", "xzW-sha256", "xzW-none", "lzmaW-size-eos"} {
		base := c09Writer(r, C09W{Writer: wn, FailAt: -1})
		if base.pan != nil || base.failed {
			panic("C09: fault-free run failed")
		}
		out, err := c09Decode(base.fmt, base.sink)
		for _, c := range base.calls {
			if c.Call != "Close2" && c.Err != nil {
				r.Violate(core.MkCase("C09", "writer", C09W{Writer: wn, FailAt: -1}), wn+" fault-free run fails", "no fault injected", c.Call+"→"+errStr(c.Err), "nil")
			}
		}
		if err != nil || !bytes.Equal(out, base.input) {
			r.Violate(core.MkCase("C09", "writer", C09W{Writer: wn, FailAt: -1}), wn+" fault-free run invalid", "no fault injected", fmt.Sprint(err), "valid stream")
			continue
		}
		r.Extra("sink_calls_"+wn, len(base.offs))
		b := base
		for k := 0; k < len(base.offs); k++ {
			for _, forever := range []bool{false, true} {
				for _, half := range []bool{false, true} {
					if half && wn == "lzmaW-bytewriter" && k > 0 {
						continue // WriteByte has no partial write
					}
					jobs = append(jobs, job{w: &C09W{Writer: wn, FailAt: k, Forever: forever, Half: half}, base: &b})
				}
			}
		}
	}
	// the same fixed histories on sinks of other kinds (a Flush method; io.StringWriter + io.ReaderFrom)
	for _, wn := range []string{"xzW", "lzma2W", "lzmaW-bufio", "xzW-crc64", "lzmaW-size-eos"} {
		for sk := 1; sk <= 2; sk++ {
			base := c09Writer(r, C09W{Writer: wn, FailAt: -1, SinkKind: sk})
			if base.pan != nil || base.failed {
				panic("C09: fault-free run failed")
			}
			if out, err := c09Decode(base.fmt, base.sink); err != nil || !bytes.Equal(out, base.input) {
				r.Violate(core.MkCase("C09", "writer", C09W{Writer: wn, FailAt: -1, SinkKind: sk}), wn+" fault-free run invalid", fmt.Sprintf("no fault injected, sink kind %d", sk), fmt.Sprint(err), "valid stream")
				continue
			}
			b := base
			for k := 0; k < len(base.offs); k++ {
				for _, forever := range []bool{false, true} {
					jobs = append(jobs, job{w: &C09W{Writer: wn, FailAt: k, Forever: forever, SinkKind: sk}, base: &b})
				}
			}
		}
	}
	// the second half of the input handed over by io.Copy from a bare reader
	for _, wn := range []string{"xzW", "lzma2W", "lzmaW-bufio", "lzmaW-bytewriter"} {
		for _, fd := range []int{2, 3} {
			base := c09Writer(r, C09W{Writer: wn, FailAt: -1, Feed: fd})
			if base.pan != nil || base.failed {
				panic("C09: fault-free run failed")
			}
			if out, err := c09Decode(base.fmt, base.sink); err != nil || !bytes.Equal(out, base.input) {
				r.Violate(core.MkCase("C09", "writer", C09W{Writer: wn, FailAt: -1, Feed: fd}), wn+" fault-free run invalid", fmt.Sprintf("no fault injected, input fed by %s", feedModeNames[fd]), fmt.Sprint(err), "valid stream")
				continue
			}
			b := base
			for k := 0; k < len(base.offs); k++ {
				for _, forever := range []bool{false, true} {
					jobs = append(jobs, job{w: &C09W{Writer: wn, FailAt: k, Forever: forever, Feed: fd}, base: &b})
				}
			}
		}
	}
	// enumerated call histories x every sink-call index x modes
	hdepth := 3
	if thorough(r) {
		hdepth = 4
	}
	var hists []string
	var hrec func(pref []string, alpha []string, kind string)
	hrec = func(pref []string, alpha []string, kind string) {
		if len(pref) > 0 {
			hists = append(hists, "H|"+kind+"|"+strings.Join(pref, ",")+",c,c")
		}
		if len(pref) == hdepth {
			return
		}
		for _, a := range alpha {
			hrec(append(append([]string(nil), pref...), a), alpha, kind)
		}
	}
	hrec(nil, []string{"wS", "wR", "wT", "f"}, "lzma2")
	hrec(nil, []string{"wS", "wR", "wT"}, "xz")
	nh := 0
	for _, h := range hists {
		base := c09Writer(r, C09W{Writer: h, FailAt: -1})
		if base.pan != nil || base.failed {
			panic("C09: fault-free history run failed: " + h)
		}
		out, err := c09Decode(base.fmt, base.sink)
		if err != nil || !bytes.Equal(out, base.input) {
			r.Violate(core.MkCase("C09", "writer", C09W{Writer: h, FailAt: -1}), "history fault-free run invalid", h, fmt.Sprint(err), "valid stream")
			continue
		}
		b := base
		for k := 0; k < len(base.offs); k++ {
			for _, forever := range []bool{false, true} {
				for _, half := range []bool{false, true} {
					if half && forever && !thorough(r) {
						continue
					}
					jobs = append(jobs, job{w: &C09W{Writer: h, FailAt: k, Forever: forever, Half: half}, base: &b})
					nh++
					if !forever {
						// the caller retries the call that failed (transient fault)
						jobs = append(jobs, job{w: &C09W{Writer: h, FailAt: k, Half: half, Retry: true}, base: &b})
						nh++
					}
				}
			}
		}
	}
	r.Extra("enumerated_histories", len(hists))
	r.Extra("history_fault_points", nh)
	streams := readerStreams(level)
	long := longStreams()
	for i := range long {
		s := &long[i]
		step := 1
		if !thorough(r) {
			step = 3
		}
		for k := 0; k <= len(s.Data); k += step {
			for _, wd := range []bool{false, true} {
				if wd && k == 0 {
					continue
				}
				jobs = append(jobs, job{s: s, rd: &C09R{Stream: s.Name, Level: -2, FailAt: k, WithData: wd, Buf: 16384}})
				if !wd {
					jobs = append(jobs, job{s: s, rd: &C09R{Stream: s.Name, Level: -2, FailAt: k, Buf: 16384, Once: true}})
				}
			}
		}
	}
	// streams ending in each kind of LZMA operation: the last source bytes are consumed by different
	// decoding steps (every second variant in the quick tier)
	fin := finalOpStreams()
	for i := range fin {
		s := &fin[i]
		if !thorough(r) && !strings.HasSuffix(s.Name, "v0") && !strings.HasSuffix(s.Name, "v3") {
			continue
		}
		for k := 13; k <= len(s.Data); k++ {
			jobs = append(jobs, job{s: s, rd: &C09R{Stream: s.Name, Level: -3, FailAt: k, Buf: 4096}})
			jobs = append(jobs, job{s: s, rd: &C09R{Stream: s.Name, Level: -3, FailAt: k, Buf: 4096, Once: true}})
			if k > len(s.Data)-12 {
				jobs = append(jobs, job{s: s, rd: &C09R{Stream: s.Name, Level: -3, FailAt: k, WithData: true, Buf: 1}})
			}
		}
	}
	for i := range streams {
		s := &streams[i]
		for k := 0; k <= len(s.Data); k++ {
			for _, wd := range []bool{false, true} {
				if wd && k == 0 {
					continue
				}
				jobs = append(jobs, job{s: s, rd: &C09R{Stream: s.Name, Level: level, FailAt: k, WithData: wd, Buf: 4096, Drain: 1 + k%2}})
				for _, b := range []int{1, 4096} {
					jobs = append(jobs, job{s: s, rd: &C09R{Stream: s.Name, Level: level, FailAt: k, WithData: wd, Buf: b}})
					if !wd {
						// transient failures only as a bare (0, err) answer: an error that accompanies the
						// last requested bytes is dropped by io.ReadFull by its documented contract
						jobs = append(jobs, job{s: s, rd: &C09R{Stream: s.Name, Level: level, FailAt: k, Buf: b, Once: true}})
					}
					if s.Fmt == "xz" && s.ValidCuts == nil {
						jobs = append(jobs, job{s: s, rd: &C09R{Stream: s.Name, Level: level, FailAt: k, WithData: wd, Buf: b, Single: true}})
						if !wd {
							jobs = append(jobs, job{s: s, rd: &C09R{Stream: s.Name, Level: level, FailAt: k, Buf: b, Single: true, Once: true}})
						}
					}
					if s.Fmt == "xz" && s.ValidCuts != nil && k <= firstStreamEnd(*s) {
						jobs = append(jobs, job{s: s, rd: &C09R{Stream: s.Name, Level: level, FailAt: k, WithData: wd, Buf: b, Single: true, Trail: true}})
						if !wd {
							jobs = append(jobs, job{s: s, rd: &C09R{Stream: s.Name, Level: level, FailAt: k, Buf: b, Single: true, Trail: true, Once: true}})
						}
					}
				}
			}
		}
	}
	r.Extra("fault_points", len(jobs))
	r.Extra("double_sink_fault_pairs", ndouble)
	r.Sample(C09W{Writer: "xzW", FailAt: 6, Forever: false, Half: true})
	r.Sample(C09R{Stream: streams[0].Name, FailAt: 40, WithData: true, Buf: 1})
	r.Parallel(len(jobs), "fault points", func(i int) {
		j := jobs[i]
		if j.w != nil {
			c09WriterJudge(r, *j.w, *j.base)
		} else {
			c09Reader(r, *j.s, *j.rd)
		}
	})
}
