package props

import (
	"bufio"
	"bytes"
	"fmt"
	"io"
	"os"

	"github.com/ulikunitz/xz"
	"github.com/ulikunitz/xz/lzma"

	"verif/core"
)

// C13 — decoded output independent of read sizes and source fragmentation; EOF stable.

type C13Case struct {
	Stream  string
	Level   int
	DefBuf  int  // default caller buffer
	DefFrag int  // default source fragment (0 = as much as fits)
	EOFLast bool // uniform schedules: deliver the last fragment together with io.EOF
	AltBuf  int  `json:",omitempty"` // > 0: the caller alternates between DefBuf and AltBuf
	// Wrap: the fragmenting source is handed over inside a *bufio.Reader (1: 16-byte buffer, 2: default
	// size, 3: 37 bytes) - a reader that takes Peek / Discard / Buffered short cuts then meets buffer
	// fills that end wherever the fragments end
	Wrap    int   `json:",omitempty"`
	Choices []int `json:",omitempty"`
}

func init() {
	register(&Check{ID: "C13", Level: "model_checking", Run: runC13})
	scenario("C13", "schedule", func(r *core.Run, c core.Case) {
		var p C13Case
		params(c, &p)
		for _, s := range append(append(append(readerStreams(maxInt(p.Level, 0)), longStreams()...), finalOpStreams()...), walkStreams()...) {
			if s.Name == p.Stream {
				x := core.Replay(func(x *core.X) { c13Body(r, s, p, x) }, p.Choices)
				_ = x
			}
		}
	})
}

// fragSource is an io.Reader (deliberately not an io.ByteReader) whose
// answers are decided by the explorer.
type fragSource struct {
	data    []byte
	pos     int
	x       *core.X
	defFrag int
	eofLast bool
	eofSent bool
	calls   int
}

func (f *fragSource) Read(p []byte) (int, error) {
	f.calls++
	if len(p) == 0 {
		return 0, nil
	}
	rem := len(f.data) - f.pos
	if rem == 0 {
		f.eofSent = true
		return 0, io.EOF
	}
	n := len(p)
	if f.defFrag > 0 && n > f.defFrag {
		n = f.defFrag
	}
	if n > rem {
		n = rem
	}
	withEOF := f.eofLast && n == rem
	// deviations offered only where they change the answer
	alts := []string{"default"}
	if n > 1 {
		alts = append(alts, "one-byte")
	}
	if rem <= len(p) && !withEOF {
		alts = append(alts, "data+EOF")
	}
	if len(alts) > 1 {
		switch alts[f.x.Choose(len(alts))] {
		case "one-byte":
			n = 1
			withEOF = false
			f.x.Logf("src@%d: 1 byte", f.pos)
		case "data+EOF":
			n = rem
			withEOF = true
			f.x.Logf("src@%d: %d bytes with io.EOF", f.pos, n)
		}
	}
	copy(p, f.data[f.pos:f.pos+n])
	f.pos += n
	if withEOF {
		f.eofSent = true
		return n, io.EOF
	}
	return n, nil
}

func openReader(format string, src io.Reader) (io.Reader, error) {
	return openReaderDict(format, src, 4096)
}

func openReaderDict(format string, src io.Reader, dict int) (io.Reader, error) {
	switch format {
	case "xz":
		return xz.ReaderConfig{DictCap: dict}.NewReader(src)
	case "lzma2":
		return lzma.Reader2Config{DictCap: dict}.NewReader2(src)
	}
	return lzma.ReaderConfig{DictCap: dict}.NewReader(src)
}

func c13Body(r *core.Run, s Stream, p C13Case, x *core.X) {
	src := &fragSource{data: s.Data, x: x, defFrag: p.DefFrag, eofLast: p.EOFLast}
	mk := func() core.Case {
		q := p
		q.Choices = append([]int(nil), x.Choices...)
		return core.MkCase("C13", "schedule", q)
	}
	desc := func() string {
		return fmt.Sprintf("stream %s defaults(buf=%d,alternating with %d,frag=%d,eofLast=%v,bufio wrap=%d) deviations: %v", s.Name, p.DefBuf, p.AltBuf, p.DefFrag, p.EOFLast, p.Wrap, x.Log)
	}
	var out []byte
	var trace []string
	var final error
	sawEOF := false
	pan := core.Guard(func() {
		// a raw LZMA2 stream carries no dictionary size: the reader is given the one the stream needs
		var source io.Reader = src
		switch p.Wrap {
		case 1:
			source = bufio.NewReaderSize(src, 16)
		case 2:
			source = bufio.NewReader(src)
		case 3:
			source = bufio.NewReaderSize(src, 37)
		}
		rd, err := openReaderDict(s.Fmt, source, maxInt(4096, int(s.DictSize)))
		if err != nil {
			final = err
			trace = append(trace, "open:"+errStr(err))
			return
		}
		buf := make([]byte, maxInt(4096, maxInt(p.DefBuf, p.AltBuf)))
		zeroNil := 0
		for step := 0; step < 100000; step++ {
			size := p.DefBuf
			if p.AltBuf > 0 && step%2 == 1 {
				size = p.AltBuf
			}
			// caller-side deviations: 0-byte and 1-byte buffers
			alts := []int{size}
			alts = append(alts, 0)
			if size != 1 {
				alts = append(alts, 1)
			}
			c := x.Choose(len(alts))
			if c > 0 {
				size = alts[c]
				x.Logf("read#%d: len(p)=%d", step, size)
			}
			n, err := rd.Read(buf[:size])
			if len(trace) < 40 {
				trace = append(trace, fmt.Sprintf("Read(%d)=(%d,%s)", size, n, errStr(err)))
			}
			if n > size || n < 0 {
				r.Violate(mk(), s.Fmt+"R n>len(p)", desc(), fmt.Sprintf("n=%d len(p)=%d", n, size), "n <= len(p)")
				return
			}
			out = append(out, buf[:n]...)
			if err != nil {
				final = err
				break
			}
			if n == 0 && size > 0 {
				zeroNil++
				if zeroNil > 64 {
					r.Violate(mk(), s.Fmt+"R stall (0,nil) forever", desc(), fmt.Sprint(trace), "progress")
					return
				}
			} else if n > 0 {
				zeroNil = 0
			}
		}
		if final == io.EOF {
			sawEOF = true
			// EOF must be stable: three non-empty reads and one empty read
			for i, size := range []int{7, 0, 1, 4096} {
				n, err := rd.Read(buf[:size])
				trace = append(trace, fmt.Sprintf("afterEOF Read(%d)=(%d,%s)", size, n, errStr(err)))
				if n != 0 {
					r.Violate(mk(), s.Fmt+"R data-after-EOF", desc(), fmt.Sprint(trace), "no data after end of stream was reported")
					out = append(out, buf[:n]...)
				}
				if size > 0 && (n != 0 || err != io.EOF) {
					r.Violate(mk(), s.Fmt+"R EOF-not-stable", desc(), fmt.Sprintf("read %d after EOF: (%d,%s)", i, n, errStr(err)), "(0, io.EOF)")
				}
			}
		}
	})
	if pan != nil {
		if pan.Site() == "unknown" {
			// no repository frame on the stack: a bug of the harness, never a verdict
			panic("C13 harness error: " + pan.Value)
		}
		r.Violate(mk(), s.Fmt+"R panic@"+pan.Site(), desc(), pan.Value+" | "+pan.Stack, "no panic")
		r.Eval(core.Hash("panic"))
		return
	}
	if !sawEOF {
		r.Violate(mk(), s.Fmt+"R schedule-dependent-status", desc(), fmt.Sprintf("final status %s after %d bytes; trace %v", errStr(final), len(out), trace), "io.EOF after the full content")
	} else if !bytes.Equal(out, s.Plain) {
		sig := s.Fmt + "R schedule-dependent-content"
		// the early-EOF pattern: a zero-length read reported EOF although data was pending
		r.Violate(mk(), sig, desc(), fmt.Sprintf("%d bytes, first difference at %d; trace %v", len(out), firstDiff(out, s.Plain), trace), fmt.Sprintf("%d bytes", len(s.Plain)))
	}
	r.Eval(core.Hash(trace, len(out)))
	r.Nontrivial(core.Hash(s.Name, trace))
	r.Trans(fmt.Sprintf("%s dev=%d", s.Fmt, x.Deviations()))
	r.Trace(1)
}

func runC13(r *core.Run) {
	level := 1 // both tiers: the full base menu
	bound := 3
	if thorough(r) {
		bound = 4
	}
	if v := os.Getenv("VERIF_C13_BOUND"); v != "" {
		fmt.Sscan(v, &bound)
	}
	r.Rule = fmt.Sprintf("streams of all three formats with many boundaries in few bytes; (1) uniform schedules: caller buffer in {1,2,3,5,4096} x source fragment in {1,2,3,all} x last fragment with/without io.EOF; two alternating buffer sizes from {1,100,255,256,257,4096}; the fragmenting source inside a bufio.Reader (16 / default / 37 bytes) with uniform schedules and deviation bound 1; (2) deviation-bounded schedules (bound %d) around defaults (4096,all) and (7,all): at EVERY caller Read a 0- or 1-byte buffer, at EVERY source Read a 1-byte answer or data together with io.EOF; after EOF three more non-empty reads and one empty read. states = (format, deviations used); non-trivial = distinct (stream, observed (n,err) sequence)", bound)
	streams := readerStreams(level)
	totalExec, totalPoints := int64(0), int64(0)
	complete := true
	for _, s := range streams {
		r.State(s.Fmt)
		// (1) uniform schedules
		for _, b := range []int{1, 2, 3, 5, 4096} {
			for _, f := range []int{1, 2, 3, 0} {
				for _, e := range []bool{false, true} {
					p := C13Case{Stream: s.Name, Level: level, DefBuf: b, DefFrag: f, EOFLast: e}
					core.Replay(func(x *core.X) { c13Body(r, s, p, x) }, nil)
					totalExec++
				}
			}
		}
		// (1c) the fragmenting source inside a bufio.Reader: uniform schedules and deviation bound 1
		for wrap := 1; wrap <= 3; wrap++ {
			for _, b := range []int{1, 7, 4096} {
				for _, f := range []int{1, 3, 5, 0} {
					p := C13Case{Stream: s.Name, Level: level, DefBuf: b, DefFrag: f, EOFLast: f == 3, Wrap: wrap}
					core.Replay(func(x *core.X) { c13Body(r, s, p, x) }, nil)
					totalExec++
				}
			}
			p := C13Case{Stream: s.Name, Level: level, DefBuf: 4096, Wrap: wrap}
			e := &core.Explorer{Ctx: r, Name: "C13 bufio " + s.Name, Bound: 1, Workers: r.Workers, Body: func(x *core.X) { c13Body(r, s, p, x) },
				Stop: func() bool { return r.Expired("deviation-bounded schedules (bufio)") }}
			e.Run()
			totalExec += e.Executions
			totalPoints += e.Points
			if !e.Complete {
				complete = false
			}
		}
		// (1b) two alternating caller buffer sizes (a short and a long read next to each other)
		for _, a := range []int{1, 100, 255, 256, 257, 4096} {
			for _, b := range []int{1, 100, 255, 256, 257, 4096} {
				if a == b {
					continue
				}
				p := C13Case{Stream: s.Name, Level: level, DefBuf: a, AltBuf: b}
				core.Replay(func(x *core.X) { c13Body(r, s, p, x) }, nil)
				totalExec++
			}
		}
		// (2) deviation-bounded
		for _, def := range []int{4096, 7} {
			if r.Expired("deviation-bounded schedules") {
				complete = false
				break
			}
			p := C13Case{Stream: s.Name, Level: level, DefBuf: def}
			bd := bound
			if def == 7 && len(s.Data) > 200 {
				bd = bound - 1 // cost bound, recorded below
				r.Note(fmt.Sprintf("bound %d (not %d) for default buffer 7 on stream %s", bd, bound, s.Name))
			}
			e := &core.Explorer{Ctx: r, Name: "C13 " + s.Name, Bound: bd, Workers: r.Workers, Body: func(x *core.X) { c13Body(r, s, p, x) },
				Stop: func() bool { return r.Expired("deviation-bounded schedules") }}
			e.Run()
			totalExec += e.Executions
			totalPoints += e.Points
			if !e.Complete {
				complete = false
			}
		}
	}
	// streams from fixed operation walks: uniform schedules and deviation bound 1
	for _, s := range walkStreams() {
		s := s
		for _, b := range []int{1, 2, 3, 5, 4096} {
			for _, f := range []int{1, 2, 3, 0} {
				p := C13Case{Stream: s.Name, Level: level, DefBuf: b, DefFrag: f, EOFLast: f == 2}
				core.Replay(func(x *core.X) { c13Body(r, s, p, x) }, nil)
				totalExec++
			}
		}
		p := C13Case{Stream: s.Name, Level: level, DefBuf: 4096}
		e := &core.Explorer{Ctx: r, Name: "C13 " + s.Name, Bound: 1, Workers: r.Workers, Body: func(x *core.X) { c13Body(r, s, p, x) },
			Stop: func() bool { return r.Expired("deviation-bounded schedules (walk streams)") }}
		e.Run()
		totalExec += e.Executions
		totalPoints += e.Points
		if !e.Complete {
			complete = false
		}
	}
	// streams ending in each kind of LZMA operation (the end of the stream is detected in different
	// decoding steps): uniform schedules, and deviation bound 1 for every second variant
	for _, s := range finalOpStreams() {
		s := s
		for _, b := range []int{1, 3, 4096} {
			for _, f := range []int{1, 0} {
				for _, e := range []bool{false, true} {
					p := C13Case{Stream: s.Name, Level: level, DefBuf: b, DefFrag: f, EOFLast: e}
					core.Replay(func(x *core.X) { c13Body(r, s, p, x) }, nil)
					totalExec++
				}
			}
		}
		if s.Name[len(s.Name)-1] == '0' || (thorough(r) && s.Name[len(s.Name)-1] == '3') {
			p := C13Case{Stream: s.Name, Level: level, DefBuf: 4096}
			e := &core.Explorer{Ctx: r, Name: "C13 " + s.Name, Bound: 1, Workers: r.Workers, Body: func(x *core.X) { c13Body(r, s, p, x) },
				Stop: func() bool { return r.Expired("deviation-bounded schedules (final-operation streams)") }}
			e.Run()
			totalExec += e.Executions
			totalPoints += e.Points
			if !e.Complete {
				complete = false
			}
		}
	}
	// streams whose output exceeds the 4 KiB reader dictionary (ring-buffer wrap): uniform
	// schedules and deviation bound 1 (several thousand choice points each)
	for _, s := range longStreams() {
		s := s
		for _, b := range []int{1, 2, 3, 5, 4095, 4096, 4097, 16384} {
			for _, f := range []int{1, 0} {
				p := C13Case{Stream: s.Name, Level: level, DefBuf: b, DefFrag: f}
				core.Replay(func(x *core.X) { c13Body(r, s, p, x) }, nil)
				totalExec++
			}
		}
		for _, a := range []int{1, 100, 255, 256, 257, 4096, 5000} {
			for _, b := range []int{100, 255, 256, 257, 4096, 5000} {
				if a != b {
					p := C13Case{Stream: s.Name, Level: level, DefBuf: a, AltBuf: b}
					core.Replay(func(x *core.X) { c13Body(r, s, p, x) }, nil)
					totalExec++
				}
			}
		}
		p := C13Case{Stream: s.Name, Level: level, DefBuf: 4096}
		e := &core.Explorer{Ctx: r, Name: "C13 " + s.Name, Bound: 1, Workers: r.Workers, Body: func(x *core.X) { c13Body(r, s, p, x) },
			Stop: func() bool { return r.Expired("deviation-bounded schedules (long streams)") }}
		e.Run()
		totalExec += e.Executions
		totalPoints += e.Points
		if !e.Complete {
			complete = false
		}
	}
	if !complete {
		r.CapHit("deviation exploration stopped by the deadline")
	}
	r.Extra("deviation_bound_completed", bound)
	r.Extra("executions", totalExec)
	r.Extra("choice_points", totalPoints)
	r.Extra("streams", len(streams))
	r.Sample(map[string]interface{}{"stream": streams[0].Name, "schedule": "default buffer 4096; deviations: read#1 len(p)=0, src@57: 1 byte"})
	r.Sample(map[string]interface{}{"stream": streams[len(streams)-1].Name, "schedule": "uniform: caller buffer 3, source fragment 2, last fragment with io.EOF"})
	r.Assume("(0,nil) source answers are outside the alphabet (the statement does not list them)")
}

func maxInt(a, b int) int {
	if a > b {
		return a
	}
	return b
}
