package props

import (
	"bytes"
	"encoding/binary"
	"fmt"
	"hash/crc32"
	"io"
	"strings"

	"verif/core"
	"verif/ref"
)

// C04 — a damaged .xz stream never decodes "successfully" to different
// content; inconsistent metadata is always an error.

type C04Case struct {
	Stream string
	Mut    *ByteMut `json:",omitempty"`
	Edit   string   `json:",omitempty"`
	// SealBit >= 0: flip this bit (absolute bit index) of a CRC32-protected metadata field and
	// recompute the CRC32 that protects it
	SealBit int `json:",omitempty"`
	// Cut > 0: after the field edit the file is cut to this many bytes
	Cut int `json:",omitempty"`
	// Buf > 0: the caller reads with buffers of this size (default 4096). For field edits: 1, and the
	// content length of the first block / of the first two blocks, so that one Read ends exactly
	// where a block's content ends and the next Read meets the block's end with nothing to deliver
	Buf int `json:",omitempty"`
}

func init() {
	register(&Check{ID: "C04", Level: "fault_enumeration", Run: runC04})
	scenario("C04", "mutate", func(r *core.Run, c core.Case) {
		var p C04Case
		params(c, &p)
		for _, s := range c04Streams(1) {
			if s.Name != p.Stream {
				continue
			}
			if p.SealBit > 0 {
				c04Sealed(r, s, p.SealBit, newSiteMap(s))
			} else if p.Mut != nil {
				c04Byte(r, s, *p.Mut, newSiteMap(s))
			} else {
				for _, e := range structEdits(8) {
					if e.Name == p.Edit {
						c04Struct(r, s, e) // (re-runs the edit and all its cuts)
					}
				}
			}
		}
	})
}

func c04Streams(level int) []Stream {
	var out []Stream
	for _, s := range readerStreams(level) {
		// multi-stream files (ValidCuts set) take part in the byte-level mutations only
		if s.Fmt == "xz" {
			out = append(out, s)
		}
	}
	if level > 0 {
		// liblzma / xz-utils written streams from the frozen corpus (single stream, with a check)
		n := 0
		for _, e := range bindRef(nil) {
			if e.Kind != "xz" || len(e.Data) > 260 || len(e.Data) < 40 || strings.HasPrefix(e.File, "multi") || strings.Contains(e.File, "-none-") {
				continue
			}
			n++
			if n%3 != 0 {
				continue
			}
			out = append(out, Stream{Name: "corpus:" + e.File, Fmt: "xz", Data: e.Data, Plain: e.Plain, Writer: "liblzma"})
		}
	}
	return out
}

// c04Judge decodes the damaged file through a *bytes.Reader and, for the default read schedule (burst
// mutations excepted), also through buffered sources (bufio with the default and with a 37-byte buffer: Peek / Discard fast
// paths, fills that end off the 4-byte grid); a replay of the case repeats all of them.
func c04Judge(r *core.Run, cs core.Case, s Stream, mutated []byte, site, desc string, mustErr bool, buf ...int) {
	c04JudgeSrc(r, cs, s, mutated, site, desc, mustErr, 0, buf...)
	if (len(buf) == 0 || buf[0] == 0) && !strings.HasPrefix(site, "xz burst") {
		// (bursts - the bulk of the byte-level mutations - stay with the in-memory source: cost bound)
		kinds := []int{2}
		if (strings.HasPrefix(site, "xz edit") || strings.HasPrefix(site, "xz sealed")) && !strings.Contains(site, "end of input") {
			kinds = []int{2, 9} // field-level damage also with fills that end off the 4-byte grid
		}
		for _, sk := range kinds {
			c04JudgeSrc(r, cs, s, mutated, site+" ("+sourceKindNames[sk]+")", desc+", source: "+sourceKindNames[sk], mustErr, sk)
		}
	}
}

func c04JudgeSrc(r *core.Run, cs core.Case, s Stream, mutated []byte, site, desc string, mustErr bool, sk int, buf ...int) {
	out, err, proto, pan := xzDecode(mutated, 0, false)
	if len(buf) > 0 && buf[0] > 0 {
		out, err, proto, pan = libDecodeBuf("xz", mutated, 0, buf[0])
		desc += fmt.Sprintf(", caller buffer %d", buf[0])
	}
	if sk != 0 {
		pan = core.Guard(func() {
			var rd io.Reader
			rd, err = openReaderDict("xz", sourceOf(sk, mutated), 0)
			if err != nil {
				return
			}
			out, err, proto = readAll(rd, 4096, 256<<20)
		})
	}
	cls := errClass(err)
	switch {
	case pan != nil:
		cls = "panic"
		// panics are C11's business; still a wrong outcome for "reported as an error"
		if mustErr {
			r.Violate(cs, site+" → panic@"+pan.Site(), desc, pan.Value+" | "+pan.Stack, "an error")
		}
	case proto != "":
		cls = "protocol"
	case cls == "EOF" && !bytes.Equal(out, s.Plain):
		r.Violate(cs, site+" → clean-EOF-with-different-content", desc,
			fmt.Sprintf("%d bytes then io.EOF, first difference at %d", len(out), firstDiff(out, s.Plain)), "an error, or the original content")
	case cls == "EOF" && mustErr:
		r.Violate(cs, site+" → accepted", desc, fmt.Sprintf("%d bytes then io.EOF", len(out)), "an error (metadata inconsistent)")
	case cls == "nil":
		r.Violate(cs, site+" → no-final-status", desc, "nil", "error or EOF")
	}
	h := core.Hash(s.Name, site, cls, len(out))
	r.Eval(h)
	r.Nontrivial(core.Hash(s.Name, cls, len(out)))
}

func c04Byte(r *core.Run, s Stream, m ByteMut, sm *siteMap) {
	cs := core.MkCase("C04", "mutate", C04Case{Stream: s.Name, Mut: &m})
	pos := m.Pos
	if m.Kind == "flip" || m.Kind == "burst" {
		pos /= 8
	}
	if pos > len(s.Data) {
		return
	}
	site := fmt.Sprintf("xz %s@%s", m.Kind, sm.at(minInt(pos, len(s.Data))))
	mutated := m.apply(s.Data)
	if bytes.Equal(mutated, s.Data) {
		return
	}
	c04Judge(r, cs, s, mutated, site, fmt.Sprintf("stream %s (%d bytes): %s", s.Name, len(s.Data), m), false)
}

// sealRegion is a run of metadata bytes protected by one CRC32.
type sealRegion struct {
	start, end       int // bytes whose bits are flipped
	crcOff           int // where the CRC32 is stored
	crcStart, crcEnd int // bytes it covers
}

// sealRegions lists the CRC32-protected metadata of a valid single stream: stream header flags,
// every block header (without its size byte, which moves the CRC), the index, the footer fields.
func sealRegions(data []byte) []sealRegion {
	x := ref.DecodeXZ(data, ref.XZOptions{})
	if x.Err != nil || len(x.Streams) != 1 {
		return nil
	}
	st := x.Streams[0]
	var out []sealRegion
	out = append(out, sealRegion{st.Off + 6, st.Off + 8, st.Off + 8, st.Off + 6, st.Off + 8})
	for _, b := range st.Blocks {
		h := b.DataOff - b.HeaderLen
		out = append(out, sealRegion{h + 1, h + b.HeaderLen - 4, h + b.HeaderLen - 4, h, h + b.HeaderLen - 4})
	}
	out = append(out, sealRegion{st.IndexOff, st.IndexOff + st.IndexLen - 4, st.IndexOff + st.IndexLen - 4, st.IndexOff, st.IndexOff + st.IndexLen - 4})
	out = append(out, sealRegion{st.FooterOff + 4, st.FooterOff + 10, st.FooterOff, st.FooterOff + 4, st.FooterOff + 10})
	return out
}

// c04Sealed flips one bit of a protected metadata field and re-seals the CRC32 over it, so that
// only the cross-checks behind the CRC can notice. Every such flip makes the metadata
// inconsistent with the rest of the file except a flip inside the dictionary-size byte (a
// different, possibly still sufficient window) - there only clause (1) is judged. The reference
// must agree that the file is broken, otherwise only clause (1) is judged as well.
func c04Sealed(r *core.Run, s Stream, bit int, sm *siteMap) {
	pos := bit / 8
	var reg *sealRegion
	regs := sealRegions(s.Data)
	for i := range regs {
		if pos >= regs[i].start && pos < regs[i].end {
			reg = &regs[i]
		}
	}
	if reg == nil {
		return
	}
	mutated := append([]byte(nil), s.Data...)
	mutated[pos] ^= 1 << uint(bit%8)
	c := crc32.ChecksumIEEE(mutated[reg.crcStart:reg.crcEnd])
	binary.LittleEndian.PutUint32(mutated[reg.crcOff:], c)
	field := sm.at(pos)
	mustErr := field != "block.header.dictcode"
	if mustErr {
		// a flip that only makes a multibyte integer non-minimal leaves every value as it was:
		// unusual encoding, consistent metadata - outside clause (2)
		if x := ref.DecodeXZ(mutated, ref.XZOptions{LenientVarint: true}); x.Err == nil && bytes.Equal(x.Out, s.Plain) {
			mustErr = false
			r.Count("sealed_flip_values_unchanged(non-minimal integer)", 1)
		}
	}
	cs := core.MkCase("C04", "mutate", C04Case{Stream: s.Name, SealBit: bit})
	r.Count("sealed_flips", 1)
	c04Judge(r, cs, s, mutated, "xz sealed-flip@"+field, fmt.Sprintf("stream %s (%d bytes): bit %d of byte %d (%s) flipped, CRC32 re-sealed", s.Name, len(s.Data), bit%8, pos, field), mustErr)
}

func c04Struct(r *core.Run, s Stream, e StructEdit) {
	m, err := xzModelOf(s.Data)
	if err != nil {
		panic("C04: base stream not parsable: " + err.Error())
	}
	if !e.apply(m) {
		r.Count("struct_edit_not_applicable", 1)
		return
	}
	mutated := m.emit()
	cs := core.MkCase("C04", "mutate", C04Case{Stream: s.Name, Edit: e.Name})
	desc := fmt.Sprintf("stream %s: field edit %q with all CRC32s re-sealed", s.Name, e.Name)
	if !e.Inconsistent {
		// control: the reference must accept it and the library must decode it
		x := ref.DecodeXZ(mutated, ref.XZOptions{})
		if x.Err != nil || !bytes.Equal(x.Out, s.Plain) {
			panic(fmt.Sprintf("C04 harness error: control edit %q on %s is not valid for the reference: %v", e.Name, s.Name, x.Err))
		}
		out, err, _, pan := xzDecode(mutated, 0, false)
		if pan != nil || errClass(err) != "EOF" || !bytes.Equal(out, s.Plain) {
			r.Violate(cs, "xz control-edit rejected: "+editClass(e.Name), desc, fmt.Sprintf("%d bytes, %s", len(out), errStr(err)), "decodes to the original (valid stream, see C03)")
		}
		r.Count("control_edits", 1)
		return
	}
	// the reference must also consider it broken, otherwise the edit list is wrong
	x := ref.DecodeXZ(mutated, ref.XZOptions{})
	if x.Err == nil {
		panic(fmt.Sprintf("C04 harness error: edit %q on %s yields a stream the reference accepts", e.Name, s.Name))
	}
	r.Count("struct_edits", 1)
	c04Judge(r, cs, s, mutated, "xz edit "+editClass(e.Name), desc, true)
	// read schedules: byte-wise, and buffers that end exactly at the end of a block's content
	{
		bufs := []int{1}
		if bx := ref.DecodeXZ(s.Data, ref.XZOptions{}); bx.Err == nil && len(bx.Streams) == 1 {
			sum := 0
			for i, b := range bx.Streams[0].Blocks {
				sum += b.UncompSize
				if i < 2 && sum > 1 {
					bufs = append(bufs, sum)
				}
			}
		}
		for _, b := range bufs {
			csb := core.MkCase("C04", "mutate", C04Case{Stream: s.Name, Edit: e.Name, Buf: b})
			c04Judge(r, csb, s, mutated, "xz edit "+editClass(e.Name), desc, true, b)
		}
	}
	// deviation bound 2: the edited file additionally ends early, at every
	// byte offset behind the stream header. A damaged header must not turn the missing rest into a
	// regular end of stream.
	for k := 13; k < len(mutated); k++ {
		cs2 := core.MkCase("C04", "mutate", C04Case{Stream: s.Name, Edit: e.Name, Cut: k})
		c04Judge(r, cs2, s, mutated[:k], "xz edit "+editClass(e.Name)+" + end of input", desc+fmt.Sprintf(", then cut to %d bytes", k), false)
	}
	r.Count("struct_edits_with_truncation", int64(len(mutated)-13))
}

// editClass strips block numbers so that a signature names the field, not the instance.
func editClass(n string) string {
	b := []byte(n)
	var out []byte
	for i := 0; i < len(b); i++ {
		if (bytes.HasPrefix(b[i:], []byte("block")) || bytes.HasPrefix(b[i:], []byte("rec"))) && i+5 <= len(b) {
			k := i + 5
			if b[i] == 'r' {
				k = i + 3
			}
			if k < len(b) && b[k] >= '0' && b[k] <= '9' {
				out = append(out, b[i:k]...)
				out = append(out, 'N')
				i = k
				continue
			}
		}
		out = append(out, b[i])
	}
	return string(out)
}

func runC04(r *core.Run) {
	bindRef(r)
	th := thorough(r)
	level := 0
	if th {
		level = 1
	}
	r.Rule = "for each base .xz stream (library- and reference-written; 1-3 blocks; CRC32/CRC64/SHA-256/none; size fields; all chunk kinds): every single-bit flip; bursts at every start bit x lengths x {invert,set0,set1,alternate}; deletion of every byte and of every suffix; insertion at every offset of {00,FF,neighbour}; and every field-level edit of the structural mutator (sizes ±1/x2/added wrong, record count, record fields, backward size, header vs footer flags, paddings, reserved bits, unsupported check/filter ids, dictionary byte, check value) with all CRC32s re-sealed; and every single-bit flip of every CRC32-protected metadata byte (stream header flags, block headers, index, footer fields) with that CRC32 re-sealed. non-trivial = distinct (stream, outcome class, bytes delivered)"
	streams := c04Streams(level)
	type job struct {
		s  Stream
		m  *ByteMut
		e  *StructEdit
		sm *siteMap
		sb int
	}
	var jobs []job
	var lens []int // every burst length of the statement, in both tiers
	for l := 2; l <= 32; l++ {
		lens = append(lens, l)
	}
	for _, s := range streams {
		sm := newSiteMap(s)
		if s.Name != "lib-xz-nocheck" && s.Name != "ref-xz-nocheck" { // (1) is stated for streams carrying a check
			nbits := len(s.Data) * 8
			for b := 0; b < nbits; b++ {
				jobs = append(jobs, job{s: s, m: &ByteMut{Kind: "flip", Pos: b}, sm: sm})
				for _, l := range lens {
					for pat := 0; pat < 4; pat++ {
						jobs = append(jobs, job{s: s, m: &ByteMut{Kind: "burst", Pos: b, Len: l, Pat: pat}, sm: sm})
					}
				}
			}
			for k := 0; k < len(s.Data); k++ {
				jobs = append(jobs, job{s: s, m: &ByteMut{Kind: "del", Pos: k}, sm: sm})
			}
			for k := 0; k <= len(s.Data); k++ {
				for pat := 0; pat < 3; pat++ {
					jobs = append(jobs, job{s: s, m: &ByteMut{Kind: "ins", Pos: k, Pat: pat}, sm: sm})
				}
			}
			// deletion of every suffix (the file ends early)
			for k := 0; k < len(s.Data); k++ {
				if s.ValidCuts[k] {
					continue // a multi-stream file cut on a stream / padding boundary is a valid shorter file
				}
				jobs = append(jobs, job{s: s, m: &ByteMut{Kind: "trunc", Pos: k}, sm: sm})
			}
		}
		if s.ValidCuts != nil {
			r.Trace(1)
			continue
		}
		for _, reg := range sealRegions(s.Data) {
			for b := reg.start * 8; b < reg.end*8; b++ {
				jobs = append(jobs, job{s: s, sm: sm, sb: b})
			}
		}
		x := ref.DecodeXZ(s.Data, ref.XZOptions{})
		es := structEdits(len(x.Streams[0].Blocks))
		for i := range es {
			jobs = append(jobs, job{s: s, e: &es[i], sm: sm})
		}
		// self-test of the structural model: unchanged re-emission is byte-identical
		m, err := xzModelOf(s.Data)
		if err != nil || !bytes.Equal(m.emit(), s.Data) {
			panic("C04 harness error: structural model does not reproduce " + s.Name)
		}
		r.Trace(1)
	}
	r.Extra("base_streams", len(streams))
	r.Extra("cases", len(jobs))
	r.Sample(map[string]interface{}{"stream": streams[0].Name, "mutation": ByteMut{Kind: "burst", Pos: 97, Len: 9, Pat: 3}.String()})
	r.Sample(map[string]interface{}{"stream": streams[1].Name, "edit": "index.rec1.unpadded+1 (CRC re-sealed)"})
	r.Parallel(len(jobs), "mutations", func(i int) {
		j := jobs[i]
		switch {
		case j.sb > 0:
			c04Sealed(r, j.s, j.sb, j.sm)
		case j.m != nil:
			c04Byte(r, j.s, *j.m, j.sm)
		default:
			c04Struct(r, j.s, *j.e)
		}
	})
	r.Assume("a CRC-32 collision of a corrupted payload would be an honest report (2^-32 per case, cases deterministic)")
}
