package props

import (
	"bytes"
	"fmt"
	"io"
	"sync"
	"sync/atomic"

	"github.com/ulikunitz/xz"

	"verif/core"
	"verif/ref"
)

// C03 — the xz reader decodes every valid LZMA2-only .xz stream to the right bytes.

type C03Case struct {
	Kind    string  // "ops", "props", "chunks", "container", "corpus", "liblzma"
	Fill    int     `json:",omitempty"`
	Syms    []OpSym `json:",omitempty"`
	Props   [3]int  `json:",omitempty"`
	Layout  []int   `json:",omitempty"` // chunks: split points and kinds
	Cont    []int   `json:",omitempty"` // container parameters
	File    string  `json:",omitempty"`
	DictCap int     `json:",omitempty"`
	Shape   []Seg   `json:",omitempty"`
	Enc     []int   `json:",omitempty"`
	// Src / Drain: kind of source the reader is given and how the caller takes the data out
	// (sourceOf / drainOf in envkinds.go)
	Src   int `json:",omitempty"`
	Drain int `json:",omitempty"`
}

func init() {
	register(&Check{ID: "C03", Level: "model_checking", Run: runC03})
	scenario("C03", "stream", func(r *core.Run, c core.Case) {
		var p C03Case
		params(c, &p)
		c03Run(r, p)
	})
}

// c03Judge gives data to the library reader and compares with the generator's plaintext.
// c03Path is the abstract trace of a case: for op sequences the path of (coder state, op kind)
// pairs of the suffix, otherwise the layout parameters.
func c03Path(p C03Case) string {
	switch p.Kind {
	case "ops":
		a := newAbs()
		path := fmt.Sprint(p.Fill, p.Props, ":")
		for _, s := range fillPrefix(p.Fill) {
			a.step(s)
		}
		for _, s := range p.Syms {
			st := a.st
			op, _ := a.step(s)
			path += fmt.Sprintf("%d%d,", st, op.Kind)
		}
		return path
	case "chunks":
		return fmt.Sprint(p.Layout)
	case "container", "hetero":
		return p.Kind + fmt.Sprint(p.Cont)
	case "after-failed":
		return p.Kind + fmt.Sprint(p.Cont[0], p.Cont[2])
	}
	return p.File + fmt.Sprint(p.Enc, p.DictCap)
}

func c03Judge(r *core.Run, p C03Case, data, plain []byte, site, desc string) {
	cs := core.MkCase("C03", "stream", p)
	// the reference must accept its own / liblzma's stream: binding, hard error otherwise
	x := ref.DecodeXZ(data, ref.XZOptions{})
	if x.Err != nil || !bytes.Equal(x.Out, plain) {
		panic(fmt.Sprintf("C03 harness error: reference decoder rejects a generated/valid stream (%s): %v", desc, x.Err))
	}
	dc := p.DictCap
	out, err, proto, pan := xzDecode(data, dc, false)
	if p.Src != 0 || p.Drain != 0 {
		pan = core.Guard(func() {
			var rd io.Reader
			rd, err = xz.ReaderConfig{DictCap: dc}.NewReader(sourceOf(p.Src, data))
			if err != nil {
				return
			}
			out, err, proto = drainOf(rd, p.Drain, 4096, 256<<20)
		})
		desc += fmt.Sprintf("; source: %s, drained by %s", sourceKindNames[p.Src], drainModeNames[p.Drain])
	}
	cls := errClass(err)
	switch {
	case pan != nil:
		r.Violate(cs, "xzR valid-stream "+site+" → panic@"+pan.Site(), desc, pan.Value+" | "+pan.Stack, "decodes")
	case proto != "":
		r.Violate(cs, "xzR valid-stream "+site+" → protocol", desc, proto, "decodes")
	case cls != "EOF":
		r.Violate(cs, "xzR valid-stream "+site+" → rejected", desc, fmt.Sprintf("%d bytes then %s", len(out), errStr(err)), fmt.Sprintf("%d bytes then io.EOF", len(plain)))
	case !bytes.Equal(out, plain):
		r.Violate(cs, "xzR valid-stream "+site+" → wrong-bytes", desc, fmt.Sprintf("first difference at %d of %d", firstDiff(out, plain), len(out)), "reference output")
	}
	r.Trace(1)
	r.Eval(core.Hash(data))
	r.Nontrivial(core.Hash(site, cls, c03Path(p), p.Src, p.Drain))
}

type c03Extreme struct {
	name       string
	lz2, plain []byte
}

var c03ExtremeCache atomic.Value

// c03Extremes builds chunk sequences whose size fields sit at the limits of the format: an LZMA
// chunk of exactly 65536 compressed bytes (field 0xFFFF) and of 65535; an LZMA chunk of exactly
// 2 MiB uncompressed (field 0x1FFFFF) and of 2 MiB - 1; uncompressed chunks of 65536 bytes and of
// 1 byte; an LZMA chunk with a single literal.
func c03Extremes() []c03Extreme {
	if v := c03ExtremeCache.Load(); v != nil {
		return v.([]c03Extreme)
	}
	var out []c03Extreme
	pr := ref.Props{LC: 3, LP: 0, PB: 2}
	rnd := randBytes(91, 70000)
	litChunk := func(n int) (*ref.LZMA2Gen, int) {
		g := ref.NewLZMA2Gen()
		ops := make([]ref.Op, n)
		for i := range ops {
			ops[i] = ref.Op{Kind: ref.OpLit, Byte: rnd[i]}
		}
		if _, err := g.Add(ref.ChunkSpec{Kind: ref.CLZMAFull, Ops: ops, Props: pr}); err != nil {
			return nil, 1 << 30
		}
		comp := (int(g.Out[3])<<8 | int(g.Out[4])) + 1
		return g, comp
	}
	for _, want := range []int{65536, 65535} {
		// the compressed size grows by about one byte per random literal: bisect, then scan
		lo, hi := 60000, 66000
		for lo < hi {
			mid := (lo + hi) / 2
			if _, c := litChunk(mid); c < want {
				lo = mid + 1
			} else {
				hi = mid
			}
		}
		for n := lo - 3; n <= lo+3; n++ {
			if g, c := litChunk(n); c == want {
				g.Add(ref.ChunkSpec{Kind: ref.CLZMA, Ops: []ref.Op{{Kind: ref.OpLit, Byte: 'x'}, {Kind: ref.OpMatch, Len: 9, Dist: 1}}})
				g.Add(ref.ChunkSpec{Kind: ref.CEnd})
				out = append(out, c03Extreme{fmt.Sprintf("lzma-chunk-compressed=%d", want), g.Out, g.Plain})
				break
			}
		}
	}
	for _, un := range []int{1 << 21, 1<<21 - 1} {
		g := ref.NewLZMA2Gen()
		ops := []ref.Op{{Kind: ref.OpLit, Byte: 'u'}}
		for n := 1; n < un; {
			l := un - n
			if l > 273 {
				l = 273
			}
			if l == 1 {
				ops = append(ops, ref.Op{Kind: ref.OpLit, Byte: 'u'})
			} else {
				if un-n-l == 1 {
					l--
				}
				ops = append(ops, ref.Op{Kind: ref.OpMatch, Len: l, Dist: 1})
			}
			n += l
		}
		if _, err := g.Add(ref.ChunkSpec{Kind: ref.CLZMAFull, Ops: ops, Props: pr}); err != nil {
			panic(err)
		}
		g.Add(ref.ChunkSpec{Kind: ref.CLZMA, Ops: []ref.Op{{Kind: ref.OpLit, Byte: 'v'}, {Kind: ref.OpMatch, Len: 5, Dist: 2}}})
		g.Add(ref.ChunkSpec{Kind: ref.CEnd})
		out = append(out, c03Extreme{fmt.Sprintf("lzma-chunk-uncompressed=%d", un), g.Out, g.Plain})
	}
	{
		g := ref.NewLZMA2Gen()
		g.Add(ref.ChunkSpec{Kind: ref.CRawReset, Raw: rnd[:65536]})
		g.Add(ref.ChunkSpec{Kind: ref.CRaw, Raw: []byte{'r'}})
		g.Add(ref.ChunkSpec{Kind: ref.CLZMAProps, Ops: []ref.Op{{Kind: ref.OpLit, Byte: 'l'}}, Props: pr})
		g.Add(ref.ChunkSpec{Kind: ref.CRaw, Raw: rnd[:65535]})
		g.Add(ref.ChunkSpec{Kind: ref.CEnd})
		out = append(out, c03Extreme{"raw-chunks-65536-1-65535+single-literal-chunk", g.Out, g.Plain})
	}
	if len(out) != 5 {
		panic(fmt.Sprintf("C03: only %d of 5 size-field extremes could be generated", len(out)))
	}
	c03ExtremeCache.Store(out)
	return out
}

func dictCodeFor(n int) byte {
	for c := byte(0); c <= 40; c++ {
		if s, _ := ref.DictSizeFromCode(c); int64(s) >= int64(n) {
			return c
		}
	}
	return 40
}

var c03Text = textBytes(33, 600)

func c03Run(r *core.Run, p C03Case) {
	switch p.Kind {
	case "ops":
		a := newAbs()
		var ops []ref.Op
		all := append(append([]OpSym(nil), fillPrefix(p.Fill)...), p.Syms...)
		for i, s := range all {
			st := a.st
			op, ok := a.step(s)
			if !ok {
				panic("C03: illegal symbol in case")
			}
			if i >= len(all)-len(p.Syms) {
				r.Trans(fmt.Sprintf("st%d --%s", st, op.Kind))
				r.State(fmt.Sprintf("st%d", st))
				if op.Kind == ref.OpMatch {
					r.Trans("distslot:" + distClass(op.Dist) + " lenclass:" + lenClass(op.Len))
				}
			}
			ops = append(ops, op)
		}
		pr := ref.Props{LC: p.Props[0], LP: p.Props[1], PB: p.Props[2]}
		lz2, plain, err := encodeOpsLZMA2(ops, pr)
		if err != nil {
			panic("C03 generator: " + err.Error())
		}
		data := ref.EncodeXZStream(ref.CheckCRC32, []ref.XZBlockSpec{{LZMA2: lz2, Plain: plain, DictCode: dictCodeFor(len(plain) + 1)}})
		c03Judge(r, p, data, plain, "ops", fmt.Sprintf("fill(%d) then %s, props %v", p.Fill, symsString(p.Syms), pr))
	case "runs":
		// a run of Fill bytes 'a' (literal, then matches of 273 bytes at distance 1), a run of 9000
		// bytes 'b', a short tail - decoded with a 4 KiB dictionary: the maximal matches arrive at
		// every phase of the reader's ring buffer (Fill sweeps 300 consecutive lengths)
		var ops []ref.Op
		run := func(b byte, n int) {
			ops = append(ops, ref.Op{Kind: ref.OpLit, Byte: b})
			for n--; n > 0; {
				l := n
				if l > 273 {
					l = 273
				}
				if l == 1 {
					ops = append(ops, ref.Op{Kind: ref.OpLit, Byte: b})
				} else {
					ops = append(ops, ref.Op{Kind: ref.OpMatch, Len: l, Dist: 1})
				}
				n -= l
			}
		}
		run('a', p.Fill)
		run('b', 9000)
		for _, c := range []byte("tail") {
			ops = append(ops, ref.Op{Kind: ref.OpLit, Byte: c})
		}
		pr := ref.Props{LC: p.Props[0], LP: p.Props[1], PB: p.Props[2]}
		lz2, plain, err := encodeOpsLZMA2(ops, pr)
		if err != nil {
			panic("C03 generator (runs): " + err.Error())
		}
		data := ref.EncodeXZStream(ref.CheckCRC32, []ref.XZBlockSpec{{LZMA2: lz2, Plain: plain, DictCode: 0}})
		c03Judge(r, p, data, plain, "long-runs", fmt.Sprintf("run of %d x 'a', run of 9000 x 'b', tail; matches of 273 bytes at distance 1; ReaderConfig.DictCap=%d", p.Fill, p.DictCap))
	case "walk":
		// a fixed long operation walk (seed in Fill) x property set: trained contexts everywhere
		ops := longWalk(p.Fill, 4000)
		pr := ref.Props{LC: p.Props[0], LP: p.Props[1], PB: p.Props[2]}
		lz2, plain, err := encodeOpsLZMA2(ops, pr)
		if err != nil {
			panic("C03 generator (walk): " + err.Error())
		}
		data := ref.EncodeXZStream(ref.CheckCRC32, []ref.XZBlockSpec{{LZMA2: lz2, Plain: plain, DictCode: dictCodeFor(len(plain) + 1)}})
		c03Judge(r, p, data, plain, "long-walk", fmt.Sprintf("long operation walk seed %d (4000 operations, %d bytes), props %v, ReaderConfig.DictCap=%d", p.Fill, len(plain), pr, p.DictCap))
	case "chunks":
		c03Chunks(r, p)
	case "container":
		c03Container(r, p)
	case "hetero":
		c03Hetero(r, p)
	case "after-failed":
		c03AfterFailed(r, p)
	case "extreme":
		for _, e := range c03Extremes() {
			if e.name == p.File {
				// Cont[0] selects the size fields of the block header (multi-byte integers: the block is large)
				sf := 0
				if len(p.Cont) > 0 {
					sf = p.Cont[0]
				}
				data := ref.EncodeXZStream(ref.CheckCRC32, []ref.XZBlockSpec{{LZMA2: e.lz2, Plain: e.plain, DictCode: dictCodeFor(4096), CompField: sf&1 != 0, UncompField: sf&2 != 0},
					{LZMA2: ref.EncodeLZMA2Simple(c03Text[:40], ref.Props{LC: 3, LP: 0, PB: 2}, 100), Plain: c03Text[:40], DictCode: 0, CompField: sf&1 != 0}})
				plain := append(append([]byte(nil), e.plain...), c03Text[:40]...)
				c03Judge(r, p, data, plain, "size-field-extreme", fmt.Sprintf("chunk size fields at their limits: %s, block size fields %d, ReaderConfig.DictCap=%d", e.name, sf, p.DictCap))
				return
			}
		}
	case "corpus":
		for _, e := range bindRef(nil) {
			if e.File == p.File {
				c03Judge(r, p, e.Data, e.Plain, "liblzma-corpus", fmt.Sprintf("corpus file %s with ReaderConfig.DictCap=%d", e.File, p.DictCap))
			}
		}
	case "liblzma":
		data := buildShape(p.Shape)
		enc, ok := liblzmaEncode('x', byte(p.Enc[0]), byte(p.Enc[1]), p.Enc[2], p.Enc[3], p.Enc[4], uint32(p.Enc[5]), data)
		if !ok {
			r.Count("liblzma_encode_unavailable", 1)
			return
		}
		c03Judge(r, p, enc, data, "liblzma-fresh", fmt.Sprintf("liblzma-encoded %s enc=%v DictCap=%d", shapeString(p.Shape), p.Enc, p.DictCap))
	}
}

func distClass(d uint32) string {
	d--
	switch {
	case d < 4:
		return "direct(0-3)"
	case d < 128:
		return "reverse-tree(4-127)"
	}
	return "direct-bits+align(>=128)"
}

func lenClass(l int) string {
	switch {
	case l < 10:
		return "low"
	case l < 18:
		return "mid"
	}
	return "high"
}

// c03Chunks: Layout = [split1, split2, kind1, kind2, kind3] over three text pieces.
func c03Chunks(r *core.Run, p C03Case) {
	low := []byte{1, 1, 2, 1, 2}
	pc := func(b []byte) []byte { return append(append([]byte(nil), low...), b...) }
	pieces := [][]byte{pc(c03Text[:p.Layout[0]]), pc(c03Text[40 : 40+p.Layout[1]]), pc(c03Text[10 : 10+p.Layout[1]+7])}
	if len(p.Layout) > 5 && p.Layout[5] == 4 {
		// the first piece is longer than the 4 KiB dictionary the stream declares (the reader's ring
		// buffer has wrapped before the second chunk) and ends in bytes with all top bits set
		pieces[0] = append(append([]byte(nil), c03Text[:p.Layout[0]]...), bytes.Repeat([]byte{0xFF}, 5200)...)
	}
	kinds := p.Layout[2:5]
	g := ref.NewLZMA2Gen()
	propsMenu := []ref.Props{{LC: 3, LP: 0, PB: 2}, {LC: 1, LP: 1, PB: 0}, {LC: 2, LP: 0, PB: 4}}
	if len(p.Layout) > 5 {
		// Layout[5]: only one of the three parameters changes between the chunks
		switch p.Layout[5] {
		case 1:
			propsMenu = []ref.Props{{LC: 3, LP: 0, PB: 2}, {LC: 3, LP: 0, PB: 0}, {LC: 3, LP: 0, PB: 4}}
		case 2:
			propsMenu = []ref.Props{{LC: 1, LP: 0, PB: 2}, {LC: 1, LP: 2, PB: 2}, {LC: 1, LP: 1, PB: 2}}
		case 3:
			propsMenu = []ref.Props{{LC: 3, LP: 0, PB: 2}, {LC: 0, LP: 0, PB: 2}, {LC: 4, LP: 0, PB: 2}}
		}
	}
	a := ref.NewChunkAutomaton()
	for i, k := range kinds {
		if k == 0 {
			break
		}
		kind := ref.ChunkKind(k)
		before := a.String()
		if !a.Step(kind) {
			return // not a legal layout: outside this property (C16 owns illegal ones)
		}
		r.Trans("chunk:" + before + " --" + kind.String())
		switch kind {
		case ref.CRaw, ref.CRawReset:
			g.Add(ref.ChunkSpec{Kind: kind, Raw: pieces[i]})
		default:
			if kind == ref.CLZMAFull {
				g.Win.Buf = g.Win.Buf[:0]
			}
			full := append(append([]byte(nil), g.Win.Buf...), pieces[i]...)
			ops := greedyOps(full, len(g.Win.Buf))
			if _, err := g.Add(ref.ChunkSpec{Kind: kind, Ops: ops, Props: propsMenu[i]}); err != nil {
				panic(err)
			}
		}
	}
	g.Add(ref.ChunkSpec{Kind: ref.CEnd})
	data := ref.EncodeXZStream(ref.CheckCRC64, []ref.XZBlockSpec{{LZMA2: g.Out, Plain: g.Plain, DictCode: 0}})
	var ks []int
	for _, k := range kinds {
		if k != 0 {
			ks = append(ks, k)
		}
	}
	c03Judge(r, p, data, g.Plain, "chunk-layout", fmt.Sprintf("chunks [%s] sizes %v", kindsString(ks), p.Layout[:2]))
}

// c03Container: Cont = [check, sizeFields(0..3), extraPad, blocks(0..4: 0 empty stream,1,2,3, 4 = with empty block)]
func c03Container(r *core.Run, p C03Case) {
	check := byte(p.Cont[0])
	var blocks []ref.XZBlockSpec
	var plain []byte
	nb := p.Cont[3]
	mk := func(i int, data []byte) ref.XZBlockSpec {
		lz := []byte{0}
		if len(data) > 0 {
			lz = ref.EncodeLZMA2Simple(data, ref.Props{LC: 3, LP: 0, PB: 2}, 50)
		}
		return ref.XZBlockSpec{LZMA2: lz, Plain: data, DictCode: byte(i % 3), CompField: p.Cont[1]&1 != 0, UncompField: p.Cont[1]&2 != 0, ExtraPad: p.Cont[2]}
	}
	switch {
	case nb > 4:
		// many tiny blocks: the index record count and the records need multi-byte varints
		for i := 0; i < nb; i++ {
			blocks = append(blocks, mk(i, c03Text[i%500:i%500+1+i%3]))
		}
	}
	switch nb {
	case 0:
	case 4:
		blocks = []ref.XZBlockSpec{mk(0, c03Text[:70]), mk(1, nil), mk(2, c03Text[70:90])}
	default:
		for i := 0; i < nb && nb <= 3; i++ {
			blocks = append(blocks, mk(i, c03Text[i*60:i*60+60+i]))
		}
	}
	for _, b := range blocks {
		plain = append(plain, b.Plain...)
	}
	data := ref.EncodeXZStream(check, blocks)
	c03Judge(r, p, data, plain, "container", fmt.Sprintf("check=%d sizefields=%d extrapad=%d blocks=%d DictCap=%d", check, p.Cont[1], p.Cont[2], nb, p.DictCap))
}

// heterogeneous blocks: one stream whose blocks declare different dictionary sizes and properties
// and use matches close to their own dictionary size; anything the reader keeps from one block to
// the next (dictionary buffer, decoder state, properties) has to fit every order of them.
var c03HeteroOnce sync.Once
var c03HeteroBlocks []ref.XZBlockSpec

func c03HeteroMenu() []ref.XZBlockSpec {
	c03HeteroOnce.Do(func() {
		far := append(append([]byte(nil), randBytes(61, 5000)...), randBytes(61, 300)...)
		mid := append(append([]byte(nil), textBytes(62, 6000)...), textBytes(62, 200)...)
		rg := ref.NewLZMA2Gen()
		rg.Add(ref.ChunkSpec{Kind: ref.CRawReset, Raw: randBytes(63, 4500)})
		rg.Add(ref.ChunkSpec{Kind: ref.CRaw, Raw: randBytes(64, 700)})
		rg.Add(ref.ChunkSpec{Kind: ref.CEnd})
		c03HeteroBlocks = []ref.XZBlockSpec{
			{LZMA2: ref.EncodeLZMA2Simple(c03Text[:300], ref.Props{LC: 3, LP: 0, PB: 2}, 120), Plain: c03Text[:300], DictCode: 0},
			{LZMA2: ref.EncodeLZMA2Simple(far, ref.Props{LC: 0, LP: 2, PB: 1}, 2000), Plain: far, DictCode: 8},
			{LZMA2: ref.EncodeLZMA2Simple(mid, ref.Props{LC: 1, LP: 1, PB: 1}, 1<<20), Plain: mid, DictCode: 2},
			{LZMA2: rg.Out, Plain: rg.Plain, DictCode: 1},
			{LZMA2: []byte{0}, Plain: nil, DictCode: 5},
		}
	})
	return c03HeteroBlocks
}

// c03AfterFailed: Cont = [x, cut, y]. A reader instance is first given the one-block stream of menu
// block x cut to `cut` bytes (it fails somewhere in the middle), then a new reader instance decodes
// the valid one-block stream of menu block y: whatever the failed instance left behind must not
// reach the next one.
func c03AfterFailed(r *core.Run, p C03Case) {
	menu := c03HeteroMenu()
	bx, by := menu[p.Cont[0]], menu[p.Cont[2]]
	xs := ref.EncodeXZStream(ref.CheckCRC32, []ref.XZBlockSpec{bx})
	if p.Cont[1] < len(xs) {
		xzDecode(xs[:p.Cont[1]], p.DictCap, false)
	}
	data := ref.EncodeXZStream(ref.CheckCRC32, []ref.XZBlockSpec{by})
	c03Judge(r, p, data, by.Plain, "after-a-failed-instance", fmt.Sprintf("block %d of the heterogeneous menu as a one-block stream, decoded after a reader instance that failed on block %d's stream cut to %d bytes, ReaderConfig.DictCap=%d", p.Cont[2], p.Cont[0], p.Cont[1], p.DictCap))
}

func c03Hetero(r *core.Run, p C03Case) {
	menu := c03HeteroMenu()
	var blocks []ref.XZBlockSpec
	var plain []byte
	for _, i := range p.Cont {
		blocks = append(blocks, menu[i])
		plain = append(plain, menu[i].Plain...)
	}
	data := ref.EncodeXZStream(ref.CheckCRC32, blocks)
	c03Judge(r, p, data, plain, "heterogeneous-blocks", fmt.Sprintf("blocks %v of the menu {4 KiB text, 64 KiB far match lc0lp2pb1, 8 KiB far match lc1lp1pb1, raw chunks, empty}, ReaderConfig.DictCap=%d", p.Cont, p.DictCap))
}

func runC03(r *core.Run) {
	corpus := bindRef(r)
	th := thorough(r)
	r.Rule = "streams from the specification-driven generator: (a) ALL legal operation sequences of depth d over {lit x3, match(len x dist incl. the window edge), rep0 x2, shortrep, rep1-3} from the empty window and after fill prefixes 127/4095/4096/4097 (extended distances covering every distance-slot class); (b) a fixed op list x all 75 property sets; (b3) long runs (maximal matches at distance 1) whose length sweeps 300 consecutive values around the 4 KiB reader dictionary; (b2) eight fixed long operation walks (4000 operations each: trained contexts) x all 75 property sets; (c) every split into <=3 chunks x every legal chunk kind per position with different properties; (d) 4 checks x size fields x header padding x {0,1,2,3 blocks, empty block}, every legal block header size 12..1024, 127..300 blocks; (d2) every list of 1..3 blocks over a menu of 5 blocks with different dictionary sizes, properties, far matches, raw chunks, empty; (f) chunk size fields at their limits (65536 / 65535 compressed bytes, 2 MiB / 2 MiB-1 uncompressed, raw chunks of 65536 and 1 bytes, a single-literal chunk); (g) every one-block stream of that menu decoded by a new reader instance after an instance that failed on another (or the same) stream cut at ~120 offsets; (h) the streams of (b)-(f) again through sources with short reads / data delivered together with io.EOF / bufio, and drained by io.Copy; (e) the frozen liblzma corpus and fresh liblzma encodings x ReaderConfig.DictCap. states = LZMA coder states entered; transitions = (state, op kind), distance-slot/length classes, chunk-automaton steps; non-trivial = distinct (case family, outcome, empty?)"
	var cases []C03Case
	def := [3]int{3, 0, 2}
	// (g) a valid stream decoded by a new instance after an instance that failed in the middle of a
	// stream; run first and in one goroutine, so that nothing else touches process-wide state between
	// the failing instance and the next one
	{
		menu := c03HeteroMenu()
		ng := 0
		for x := range menu {
			xl := len(ref.EncodeXZStream(ref.CheckCRC32, []ref.XZBlockSpec{menu[x]}))
			step := 1
			if xl > 240 {
				step = xl / 120
			}
			for cut := 12; cut < xl; cut += step {
				for y := range menu {
					for _, dc := range []int{0, 4096} {
						if dc == 4096 && (cut/step)%4 != 0 {
							continue
						}
						c03Run(r, C03Case{Kind: "after-failed", Cont: []int{x, cut, y}, DictCap: dc})
						ng++
					}
				}
			}
		}
		r.Extra("decodes_after_a_failed_instance", ng)
	}
	// (a) operation sequences, enumerated inside the workers (not materialised)
	type opJob struct {
		fill   int
		head   []OpSym // first symbols of the counted suffix (sharding) or state macro
		macro  bool    // head is a macro prefix (not counted in depth)
		ext    bool
		depth  int
		props  [3]int
		narrow []OpSym
	}
	var jobs []opJob
	d0, d1, dn := 4, 3, 4
	if th {
		d0, d1, dn = 5, 3, 5
	}
	for d := 1; d <= d0; d++ {
		if d < 3 {
			jobs = append(jobs, opJob{depth: d, props: def})
			continue
		}
		// shard by the first two symbols
		enumSyms(nil, opAlphabet(false), 2, func(ops []ref.Op, suf []OpSym) {
			jobs = append(jobs, opJob{head: suf, depth: d - 2, props: def})
		})
	}
	macros := [][]OpSym{
		{{K: ref.OpLit, B: 'a'}, {K: ref.OpLit, B: 'a'}, {K: ref.OpLit, B: 'a'}, {K: ref.OpLit, B: 'a'}},
		{{K: ref.OpMatch, Len: 3, Dist: 7}, {K: ref.OpLit, B: 'a'}, {K: ref.OpLit, B: 'b'}},
		{{K: ref.OpRep0, Len: 2}, {K: ref.OpLit, B: 'a'}, {K: ref.OpLit, B: 'b'}},
		{{K: ref.OpLit, B: 'a'}, {K: ref.OpShortRep}, {K: ref.OpLit, B: 'a'}, {K: ref.OpLit, B: 'b'}},
		{{K: ref.OpMatch, Len: 3, Dist: 7}, {K: ref.OpLit, B: 'a'}},
		{{K: ref.OpLit, B: 'a'}, {K: ref.OpRep0, Len: 2}, {K: ref.OpLit, B: 'a'}},
		{{K: ref.OpLit, B: 'a'}, {K: ref.OpShortRep}, {K: ref.OpLit, B: 'a'}},
		{{K: ref.OpLit, B: 'a'}, {K: ref.OpMatch, Len: 3, Dist: 7}},
		{{K: ref.OpLit, B: 'a'}, {K: ref.OpRep0, Len: 2}},
		{{K: ref.OpLit, B: 'a'}, {K: ref.OpShortRep}},
		{{K: ref.OpMatch, Len: 3, Dist: 7}, {K: ref.OpMatch, Len: 4, Dist: 9}},
		{{K: ref.OpMatch, Len: 3, Dist: 7}, {K: ref.OpRep0, Len: 2}},
	}
	for _, mc := range macros {
		jobs = append(jobs, opJob{fill: 127, head: mc, macro: true, depth: 2, props: def}, opJob{fill: 127, head: mc, macro: true, depth: 1, props: [3]int{0, 2, 1}})
	}
	for _, f := range []int{127, 4095, 4096, 4097} {
		for d := 1; d <= d1; d++ {
			if d < 3 {
				jobs = append(jobs, opJob{fill: f, ext: true, depth: d, props: [3]int{0, 0, 0}}, opJob{fill: f, ext: true, depth: d, props: [3]int{1, 2, 3}})
				continue
			}
			enumSyms(fillPrefix(f), opAlphabet(true), 1, func(ops []ref.Op, suf []OpSym) {
				jobs = append(jobs, opJob{fill: f, head: suf, ext: true, depth: d - 1, props: [3]int{0, 0, 0}})
			})
		}
	}
	{
		// deep but narrow: depth 6 (quick) / 7 (thorough) over a reduced alphabet (10 symbols), sharded by the first two
		narrow := []OpSym{{K: ref.OpLit, B: 0}, {K: ref.OpLit, B: 0xFF}, {K: ref.OpMatch, Len: 2, Dist: 1}, {K: ref.OpMatch, Len: 273, Dist: -1},
			{K: ref.OpMatch, Len: 9, Dist: 2}, {K: ref.OpRep0, Len: 2}, {K: ref.OpShortRep}, {K: ref.OpRep1, Len: 2}, {K: ref.OpRep2, Len: 3}, {K: ref.OpRep3, Len: 2}}
		enumSyms(nil, narrow, 2, func(ops []ref.Op, suf []OpSym) {
			jobs = append(jobs, opJob{head: suf, depth: dn, props: [3]int{1, 1, 1}, narrow: narrow})
		})
	}
	var nOps int64
	r.Parallel(len(jobs), "operation sequences", func(i int) {
		j := jobs[i]
		pre := append(append([]OpSym(nil), fillPrefix(j.fill)...), j.head...)
		fill := j.fill
		n := int64(0)
		alpha := opAlphabet(j.ext)
		if j.narrow != nil {
			alpha = j.narrow
		}
		enumSyms(pre, alpha, j.depth, func(ops []ref.Op, suf []OpSym) {
			c := C03Case{Kind: "ops", Fill: fill, Syms: append(append([]OpSym(nil), j.head...), suf...), Props: j.props, DictCap: 4096}
			c03Run(r, c)
			n++
		})
		atomic.AddInt64(&nOps, n)
	})
	r.Extra("operation_sequences", nOps)
	// (b) fixed op list × 75 property sets × DictCap
	fixed := []OpSym{{K: ref.OpLit, B: 'a'}, {K: ref.OpLit, B: 0}, {K: ref.OpLit, B: 0xFF}, {K: ref.OpMatch, Len: 9, Dist: 2}, {K: ref.OpLit, B: 'b'}, {K: ref.OpShortRep},
		{K: ref.OpMatch, Len: 18, Dist: 5}, {K: ref.OpRep1, Len: 2}, {K: ref.OpLit, B: 'c'}, {K: ref.OpRep2, Len: 3}, {K: ref.OpMatch, Len: 2, Dist: -1}, {K: ref.OpRep3, Len: 2}, {K: ref.OpRep0, Len: 273}, {K: ref.OpLit, B: 'd'}}
	for _, pr := range allProps2() {
		for _, dc := range []int{4096, 65536} {
			cases = append(cases, C03Case{Kind: "ops", Fill: 200, Syms: fixed, Props: pr, DictCap: dc})
		}
	}
	// (b3) long runs (maximal matches at distance 1) whose length sweeps 300 consecutive values around the 4 KiB reader dictionary; (b2) eight fixed long operation walks x all 75 property sets
	for seed := 0; seed < 8; seed++ {
		for _, pr := range allProps2() {
			dc := 4096
			if seed%2 == 1 {
				dc = 1 << 20
			}
			cases = append(cases, C03Case{Kind: "walk", Fill: seed, Props: pr, DictCap: dc})
		}
	}
	// (b3) long runs at every phase of a 4 KiB reader dictionary
	for n := 4097; n < 4397; n++ {
		cases = append(cases, C03Case{Kind: "runs", Fill: n, Props: def, DictCap: 4096})
	}
	for n := 8190; n < 8470; n += 3 {
		cases = append(cases, C03Case{Kind: "runs", Fill: n, Props: [3]int{0, 2, 0}, DictCap: 4096})
	}
	// (c) chunk layouts
	for _, s1 := range []int{1, 30} {
		for _, s2 := range []int{1, 25} {
			for k1 := 1; k1 <= 6; k1++ {
				for k2 := 0; k2 <= 6; k2++ {
					for k3 := 0; k3 <= 6; k3++ {
						if k2 == 0 && k3 != 0 {
							continue
						}
						cases = append(cases, C03Case{Kind: "chunks", Layout: []int{s1, s2, k1, k2, k3}, DictCap: 4096})
						if k2 != 0 && s1 == 30 && s2 == 25 {
							for v := 1; v <= 4; v++ {
								cases = append(cases, C03Case{Kind: "chunks", Layout: []int{s1, s2, k1, k2, k3, v}, DictCap: 4096})
							}
						}
					}
				}
			}
		}
	}
	// (d) container layouts
	for _, ck := range []int{0, 1, 4, 10} {
		for sf := 0; sf < 4; sf++ {
			for ep := 0; ep < 2; ep++ {
				for nb := 0; nb <= 4; nb++ {
					for _, dc := range []int{4096, 1 << 20} {
						cases = append(cases, C03Case{Kind: "container", Cont: []int{ck, sf, ep, nb}, DictCap: dc})
					}
				}
			}
		}
	}
	// every legal block header size 12..1024 (header padding), with and without size fields
	for ep := 2; ep <= 253; ep++ {
		for _, sf := range []int{0, 3} {
			if sf == 3 && ep > 252 {
				continue
			}
			cases = append(cases, C03Case{Kind: "container", Cont: []int{1, sf, ep, 2}, DictCap: 4096})
		}
	}
	for _, nb := range []int{127, 128, 129, 300} {
		for _, sf := range []int{0, 3} {
			cases = append(cases, C03Case{Kind: "container", Cont: []int{4, sf, 0, nb}, DictCap: 4096})
		}
	}
	// (d2) heterogeneous blocks: every list of 1..3 blocks over a menu of 5
	for a := 0; a < 5; a++ {
		for _, dc := range []int{4096, 1 << 16} {
			cases = append(cases, C03Case{Kind: "hetero", Cont: []int{a}, DictCap: dc})
			for b := 0; b < 5; b++ {
				cases = append(cases, C03Case{Kind: "hetero", Cont: []int{a, b}, DictCap: dc})
				for c := 0; c < 5; c++ {
					cases = append(cases, C03Case{Kind: "hetero", Cont: []int{a, b, c}, DictCap: dc})
				}
			}
		}
	}
	// (f) chunk size fields at their limits
	for _, e := range c03Extremes() {
		for _, dc := range []int{4096, 1 << 22} {
			for sf := 0; sf < 4; sf++ {
				cases = append(cases, C03Case{Kind: "extreme", File: e.name, DictCap: dc, Cont: []int{sf}})
			}
		}
	}
	// (e) corpus × DictCap, fresh liblzma encodings
	for _, e := range corpus {
		if e.Kind != "xz" {
			continue
		}
		for _, dc := range []int{4096, 65536, 1 << 22} {
			cases = append(cases, C03Case{Kind: "corpus", File: e.File, DictCap: dc})
		}
	}
	if liblzmaAvailable() {
		shapes := [][]Seg{{}, {{K: "Z", N: 1}}, {{K: "T", Seed: 1, N: 5000}}, {{K: "R", Seed: 1, N: 70000}}, {{K: "T", Seed: 2, N: 70000}, {K: "K", N: 65000}}, {{K: "Z", N: 300000}},
			{{K: "R", Seed: 2, N: 5000}, {K: "K", N: 5000}, {K: "A", B: 9, N: 4000}}}
		if th {
			shapes = append(shapes, []Seg{{K: "T", Seed: 3, N: 1<<21 + 70000}}, []Seg{{K: "R", Seed: 3, N: 1<<21 + 10}})
		}
		encs := [][]int{{0, 4, 0, 0, 0, 0}, {6, 1, 0, 0, 0, 0}, {9, 10, 0, 0, 0, 0}, {255, 0, 0, 4, 0, 4096}, {255, 4, 4, 0, 4, 65536}, {255, 4, 2, 2, 1, 1 << 20}}
		for _, sh := range shapes {
			for _, e := range encs {
				for _, dc := range []int{4096, 1 << 20} {
					cases = append(cases, C03Case{Kind: "liblzma", Shape: sh, Enc: e, DictCap: dc})
				}
			}
		}
	}
	r.Extra("cases", len(cases))
	r.Extra("liblzma_fresh_encodings", liblzmaAvailable())
	r.Sample(map[string]interface{}{"ops": "lit(61) match(9,pos) rep1(2) shortrep"})
	r.Sample(map[string]interface{}{"ops": "fill(4096) match(273,4096) match(17,129)"})
	r.Sample(map[string]interface{}{"ops": "fill(200) " + symsString(fixed) + " x all 75 property sets"})
	r.Sample(cases[len(cases)-1])
	// every stream of the families (b)-(f) also through the other kinds of source (short reads, data
	// together with io.EOF, buffered, ...) and drained by io.Copy
	{
		base := cases
		for _, c := range base {
			if c.Kind == "liblzma" || (c.Kind == "corpus" && !th) {
				continue
			}
			for _, sk := range []int{4, 5, 2, 6} {
				if (c.Kind == "walk" || c.Kind == "runs") && sk != 4 && sk != 5 {
					continue
				}
				q := c
				q.Src = sk
				if sk == 5 {
					q.Drain = 1
				}
				cases = append(cases, q)
			}
			if c.Kind != "walk" && c.Kind != "runs" {
				q := c
				q.Drain = 2
				cases = append(cases, q)
			}
		}
		r.Extra("cases_with_other_source_or_drain", len(cases)-len(base))
	}
	r.Parallel(len(cases), "valid streams", func(i int) { c03Run(r, cases[i]) })
	// coverage of the coder-state × op-kind table
	miss := []string{}
	for st := 0; st < 12; st++ {
		for _, k := range []ref.OpKind{ref.OpLit, ref.OpMatch, ref.OpShortRep, ref.OpRep0, ref.OpRep1, ref.OpRep2, ref.OpRep3} {
			if !r.HasTrans(fmt.Sprintf("st%d --%s", st, k)) {
				miss = append(miss, fmt.Sprintf("st%d/%s", st, k))
			}
		}
	}
	r.Extra("coder_state_x_opkind_pairs_exercised", 84-len(miss))
	r.Extra("coder_state_x_opkind_pairs_missing", miss)
}
