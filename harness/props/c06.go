package props

import (
	"bytes"
	"encoding/binary"
	"fmt"
	"io"

	"verif/core"
	"verif/ref"
)

// C06 — classic .lzma round trip and the explicit-size contract.
// C07 — .lzma interoperability both ways (writer side judged here too).

// LZWCase is one classic-LZMA writer execution. Parts: Write sizes in order;
// remaining data is written in one Write unless Exact is set; then Close.
type LZWCase struct {
	Cfg   LZCfg
	Shape []Seg
	Parts []int `json:",omitempty"`
	// Hist: size-contract history — the Write lengths are taken literally (data
	// is a long text), nothing is appended, Close follows.
	Hist bool `json:",omitempty"`
	// a part of -1 in a history is a Close call in the middle (refused while fewer than Size bytes have
	// been written; the caller writes the rest and closes again)
	// ByteSink: the sink also implements io.ByteWriter (the writer then works without its own bufio layer)
	ByteSink bool `json:",omitempty"`
	// Feed: how the input that is not covered by Parts is handed over (feedOf in envkinds.go): 0 one
	// Write; 1-4 io.Copy from bare readers (full / last bytes together with io.EOF / short reads / 1000-byte
	// reads with io.EOF on the last) - io.Copy uses the writer's ReadFrom when it offers one
	Feed int `json:",omitempty"`
}

// sinkByteBuf is a sink that implements io.ByteWriter as well.
type sinkByteBuf struct{ sinkBuf }

func (s *sinkByteBuf) WriteByte(c byte) error { s.b = append(s.b, c); return nil }

func init() {
	register(&Check{ID: "C06", Level: "model_checking", Run: runC06})
	scenario("C06", "lzmawrite", func(r *core.Run, c core.Case) {
		var p LZWCase
		params(c, &p)
		lzmaWriteCase(r, "C06", p)
	})
	scenario("C07", "lzmawrite", func(r *core.Run, c core.Case) {
		var p LZWCase
		params(c, &p)
		lzmaWriteCase(r, "C07", p)
	})
}

func lzmaWriteExec(p LZWCase, data []byte) (sink []byte, calls []callRes, verr error, pan *core.PanicInfo) {
	cfg := p.Cfg.cfg()
	if verr = cfg.Verify(); verr != nil {
		return
	}
	var sbb sinkByteBuf
	sb := &sbb.sinkBuf
	var sinkW io.Writer = sb
	if p.ByteSink {
		sinkW = &sbb
	}
	pan = core.Guard(func() {
		w, err := p.Cfg.open(sinkW)
		calls = append(calls, callRes{Call: "NewWriter", Err: err, Sink: len(sb.b)})
		if err != nil {
			return
		}
		rest := data
		for _, k := range p.Parts {
			if k == -1 {
				err := w.Close()
				calls = append(calls, callRes{Call: "CloseEarly", Err: err, Sink: len(sb.b)})
				continue
			}
			if k > len(rest) {
				k = len(rest)
			}
			n, err := w.Write(rest[:k])
			calls = append(calls, callRes{Call: "Write", N: n, Len: k, Err: err, Sink: len(sb.b)})
			if n >= 0 && n <= k {
				rest = rest[n:]
			}
		}
		if !p.Hist && (len(rest) > 0 || len(p.Parts) == 0) {
			n, err := feedOf(w, rest, p.Feed)
			calls = append(calls, callRes{Call: "Write", N: int(n), Len: len(rest), Err: err, Sink: len(sb.b)})
		}
		err = w.Close()
		calls = append(calls, callRes{Call: "Close", Err: err, Sink: len(sb.b)})
	})
	sink = sb.b
	return
}

func lzmaWriteCase(r *core.Run, prop string, p LZWCase) {
	data := buildShape(p.Shape)
	cs := core.MkCase(prop, "lzmawrite", p)
	sink, calls, verr, pan := lzmaWriteExec(p, data)
	if verr != nil {
		// every enumerated configuration lies in the domain the statement names (lc 0-8, lp 0-4,
		// pb 0-4, DictCap >= 4096, BufSize >= 273, both matchers, size and / or end marker)
		if prop == "C06" {
			r.Violate(cs, "lzmaW valid-configuration-rejected-by-Verify", fmt.Sprintf("cfg=%s", p.Cfg), errStr(verr), "accepted (the statement's domain: lc 0-8, lp 0-4, pb 0-4, any dictionary / look-ahead size the format allows)")
		}
		r.Count("config_rejected_by_Verify", 1)
		return
	}
	mode := "eos"
	sizeKnown := p.Cfg.SizeInHeader || p.Cfg.Size > 0
	if sizeKnown {
		mode = "size"
		if p.Cfg.EOS {
			mode = "size+eos"
		}
	}
	site := fmt.Sprintf("lzmaW mode=%s matcher=%s", mode, matcherName(p.Cfg.Matcher))
	if sizeKnown && p.Cfg.Size == 0 {
		site += " size=0"
	}
	desc := fmt.Sprintf("cfg=%s input=%s (%d bytes) parts=%v hist=%v fed by %s", p.Cfg, shapeString(p.Shape), len(data), p.Parts, p.Hist, feedModeNames[p.Feed])
	if pan != nil {
		if prop == "C06" {
			r.Violate(cs, site+" → panic@"+pan.Site(), desc, pan.Value+" | "+pan.Stack, "no panic")
		}
		return
	}
	if len(calls) == 1 && calls[0].Err != nil {
		if prop == "C06" {
			r.Violate(cs, site+" → constructor-fails", desc, errStr(calls[0].Err), "nil (configuration passed Verify)")
		}
		return
	}
	// expected behaviour of the calls
	S := int64(-1)
	if sizeKnown {
		S = p.Cfg.Size
	}
	accepted := int64(0)
	var hist []string
	contractOK := true
	var closeErr error
	closedEarly := false
	for _, c := range calls[1:] {
		hist = append(hist, fmt.Sprintf("%s(%d)=(%d,%s)", c.Call, c.Len, c.N, errStr(c.Err)))
		if closedEarly {
			// the stream was completed by a Close in the middle: what later calls answer is not judged
			continue
		}
		if c.Call == "CloseEarly" {
			if (c.Err != nil) != (S >= 0 && accepted < S) {
				contractOK = false
			}
			if c.Err == nil {
				closedEarly = true
				closeErr = nil
				if c.Sink <= len(sink) {
					sink = sink[:c.Sink]
				}
			}
			continue
		}
		if c.Call == "Close" {
			closeErr = c.Err
			continue
		}
		wantN := int64(c.Len)
		wantErr := false
		if S >= 0 && accepted+wantN > S {
			wantN = S - accepted
			wantErr = true
		}
		if int64(c.N) != wantN || (c.Err != nil) != wantErr {
			contractOK = false
		}
		if c.N > 0 {
			accepted += int64(c.N)
		}
	}
	wantCloseErr := S >= 0 && accepted < S
	if !closedEarly && (closeErr != nil) != wantCloseErr {
		contractOK = false
	}
	if prop == "C06" && !contractOK {
		sig := site + " → call-contract"
		if S < 0 {
			sig = site + " → call-fails"
		}
		r.Violate(cs, sig, desc, fmt.Sprint(hist), "Write accepts exactly the remaining bytes up to Size (error on surplus), Close fails iff fewer than Size bytes were written; without Size every call succeeds")
	}
	want := data[:minInt(int(accepted), len(data))]
	cls := "closed-with-error"
	if closeErr == nil {
		cls = "ok"
		switch prop {
		case "C06":
			out, err, proto, rp := lzmaDecode(sink, 0)
			switch {
			case rp != nil:
				r.Violate(cs, site+" → reader-panic", desc, rp.Value+" | "+rp.Stack, "round trip")
			case proto != "":
				r.Violate(cs, site+" → reader-protocol", desc, proto, "round trip")
			case errClass(err) != "EOF" || !bytes.Equal(out, want):
				r.Violate(cs, site+" → round-trip-mismatch", desc, fmt.Sprintf("reader: %d bytes then %s, first difference at %d; stream %s", len(out), errStr(err), firstDiff(out, want), short(sink)), fmt.Sprintf("%d bytes then io.EOF", len(want)))
			}
			if len(data) <= 200000 {
				// the reader's own DictCap must never shrink the window below what the header declares
				out2, err2, _, rp2 := lzmaDecode(sink, 4096)
				if rp2 != nil || errClass(err2) != "EOF" || !bytes.Equal(out2, want) {
					r.Violate(cs, site+" → round-trip-mismatch(ReaderConfig.DictCap=4096)", desc, fmt.Sprintf("reader with DictCap 4096: %d bytes then %s", len(out2), errStr(err2)), fmt.Sprintf("%d bytes then io.EOF", len(want)))
				}
			}
			// header never misstates the content length
			if len(sink) >= 13 {
				hs := binary.LittleEndian.Uint64(sink[5:13])
				if hs != ^uint64(0) && hs != uint64(len(want)) {
					r.Violate(cs, site+" → header-size-misstated", desc, fmt.Sprintf("header size %d", hs), fmt.Sprintf("%d", len(want)))
				}
				if S >= 0 && hs != uint64(S) {
					r.Violate(cs, site+" → header-size-not-configured-size", desc, fmt.Sprintf("header size field %#x", hs), fmt.Sprintf("%d", S))
				}
			}
		case "C07":
			if p.Cfg.Props && p.Cfg.LC+p.Cfg.LP > 4 {
				return
			}
			a := ref.DecodeAlone(sink, false)
			if a.Err != nil || !bytes.Equal(a.Out, want) || a.Trailing != 0 {
				r.Violate(cs, site+" → stream-invalid-for-reference", desc, fmt.Sprintf("reference: %v, %d bytes, trailing %d; stream %s", a.Err, len(a.Out), a.Trailing, short(sink)), fmt.Sprintf("decodes to the %d input bytes", len(want)))
				break
			}
			wp := ref.Props{LC: 3, LP: 0, PB: 2}
			if p.Cfg.Props {
				wp = ref.Props{LC: p.Cfg.LC, LP: p.Cfg.LP, PB: p.Cfg.PB}
			}
			if a.Header.Props != wp {
				r.Violate(cs, site+" → header-props", desc, fmt.Sprint(a.Header.Props), fmt.Sprint(wp))
			}
			if a.MaxDist > a.Header.DictSize {
				r.Violate(cs, site+" → header-dict-too-small", desc, fmt.Sprintf("dict %d, max distance %d", a.Header.DictSize, a.MaxDist), "dictionary size >= every distance")
			}
			if sizeKnown != (a.Header.Size >= 0) {
				r.Violate(cs, site+" → header-size-mode", desc, fmt.Sprintf("header size %d", a.Header.Size), fmt.Sprintf("size known: %v", sizeKnown))
			}
			wantMarker := !sizeKnown || p.Cfg.EOS
			if a.Marker != wantMarker {
				r.Violate(cs, site+" → marker-mode", desc, fmt.Sprintf("marker present: %v", a.Marker), fmt.Sprintf("%v", wantMarker))
			}
			if s := liblzmaAgrees('a', 0, sink, want); s != "" {
				r.Violate(cs, site+" → stream-rejected-by-liblzma", desc, s+"; stream "+short(sink), "liblzma decodes it to the input")
			}
		}
	}
	r.Trace(1)
	r.State(fmt.Sprintf("%s accepted:%s closed:%s", mode, sizeClass(accepted, S), cls))
	for i := range hist {
		if i < 5 {
			r.Trans(fmt.Sprintf("%s #%d %s", mode, i, callClass(calls[i+1], S)))
		}
	}
	r.Eval(core.Hash(sink, fmt.Sprint(hist)))
	r.Nontrivial(core.Hash(mode, cls, sizeClass(accepted, S), len(hist)))
}

func sizeClass(a, s int64) string {
	switch {
	case s < 0:
		return "n/a"
	case a < s:
		return "<S"
	case a == s:
		return "=S"
	}
	return ">S"
}

func callClass(c callRes, s int64) string {
	e := "ok"
	if c.Err != nil {
		e = "err"
	}
	l := "n"
	if c.Len == 0 {
		l = "0"
	}
	return fmt.Sprintf("%s(%s)=%s,full=%v", c.Call, l, e, c.N == c.Len)
}

func lzmaWCases(r *core.Run, prop string) []LZWCase {
	th := thorough(r)
	var cases []LZWCase
	add := func(c LZWCase) { cases = append(cases, c) }
	lit := func(b []byte) Seg { return Seg{K: "L", Lit: append([]byte{}, b...)} }
	modes := func(n int) []LZCfg {
		m := []LZCfg{{}, {SizeInHeader: true, Size: int64(n)}, {SizeInHeader: true, Size: int64(n), EOS: true}}
		return m
	}
	// (a) Σ3 inputs × all 225 property codes × matchers × termination modes
	n := 3
	if th {
		n = 5
	}
	ins := sigma3(n)
	for code := 0; code < 225; code++ {
		pr, _ := ref.PropsFromCode(byte(code))
		heavy := pr.LC+pr.LP > 8
		for ii, in := range ins {
			if heavy && (ii%7 != 0) {
				continue // lc+lp>8: 0.4-6 MB of literal probabilities per coder (cost bound)
			}
			if !th && pr.LC+pr.LP > 4 && ii%3 != 0 {
				continue
			}
			for mt := 0; mt < 2; mt++ {
				for _, mo := range modes(len(in)) {
					c := mo
					c.Props, c.LC, c.LP, c.PB = true, pr.LC, pr.LP, pr.PB
					c.DictCap, c.Matcher = 4096, mt
					add(LZWCase{Cfg: c, Shape: []Seg{lit(in)}})
				}
			}
		}
	}
	// (b) Σ3 heads with tail, larger n, default-ish props × DictCap × BufSize
	n2 := 5
	if th {
		n2 = 7
	}
	for _, in := range sigma3(n2) {
		for form := 0; form < 2; form++ {
			sh := []Seg{lit(in), {K: "L", Lit: tailT}}
			if form == 1 {
				sh = []Seg{{K: "L", Lit: tailT}, lit(in)}
			}
			for mt := 0; mt < 2; mt++ {
				for mi, mo := range modes(len(in) + len(tailT)) {
					if !th && mi == 2 && len(in) > 3 {
						continue
					}
					c := mo
					c.DictCap, c.Matcher = 4096, mt
					if len(in)%2 == 1 {
						c.BufSize = 273
					}
					add(LZWCase{Cfg: c, Shape: sh})
				}
			}
		}
	}
	// (c) shapes (depth 1-2) × DictCap × BufSize × matchers × modes
	menu := []Seg{{K: "Z", N: 1}, {K: "Z", N: 273}, {K: "Z", N: 5000}, {K: "T", Seed: 1, N: 4097}, {K: "R", Seed: 1, N: 4096}, {K: "T", Seed: 2, N: 70000}, {K: "R", Seed: 2, N: 70000}, {K: "K", N: 4097}, {K: "A", B: 0xEE, N: 65537}}
	for _, a := range menu {
		for _, b := range append([]Seg{{K: "L"}}, menu...) {
			if a.K == "K" {
				continue
			}
			sh := []Seg{a, b}
			ln := len(buildShape(sh))
			for mt := 0; mt < 2; mt++ {
				for _, dc := range []int{4096, 65536} {
					for _, bs := range []int{273, 4096} {
						if !th && bs == 273 && dc == 65536 {
							continue
						}
						for _, mo := range modes(ln) {
							c := mo
							c.DictCap, c.BufSize, c.Matcher = dc, bs, mt
							add(LZWCase{Cfg: c, Shape: sh})
						}
					}
				}
			}
		}
	}
	// dictionary capacities that are not powers of two (the 32-bit header field holds any value):
	// a repeat whose only source lies just inside the capacity makes the header truthful only if
	// it announces at least that capacity
	for _, dc := range []int{4097, 5000, 6145, 7000, 15000, 30000, 70000, 100000, 120000, 1<<20 + 1} {
		for mt := 0; mt < 2; mt++ {
			if mt == 1 && dc > 70000 {
				continue
			}
			for _, mo := range modes(2*dc + 420) {
				c := mo
				c.DictCap, c.Matcher = dc, mt
				add(LZWCase{Cfg: c, Shape: []Seg{{K: "R", Seed: 14, N: dc - 40}, {K: "K", N: dc - 40}, {K: "T", Seed: 14, N: 500}}})
			}
		}
	}
	// boundary lattice derived from the configuration (see C01 family (o)), classic writer
	for _, db := range [][2]int{{4096, 273}, {4096, 4096}, {5000, 300}} {
		D, B := db[0], db[1]
		for _, c := range []int{B, D, D + B, D + B + 1, 2*(D+B+1) - 1, 2 * D, 3*(D+B+1) + 272} {
			for d := -1; d <= 1; d++ {
				L := c + d
				for _, k := range []string{"A", "T", "R", "P"} {
					for m := 0; m < 2; m++ {
						if m == 1 && k == "A" {
							continue
						}
						add(LZWCase{Cfg: LZCfg{DictCap: D, BufSize: B, Matcher: m, EOS: L%2 == 0, SizeInHeader: L%3 == 0, Size: int64(L)}, Shape: []Seg{{K: k, Seed: 71, B: 'm', N: L}}})
					}
				}
			}
		}
	}
	// configuration histories: an lzma.WriterConfig variable verified with configuration A (Verify
	// fills defaults in place), then set to configuration B and used; all ordered pairs of a menu
	{
		in := buildShape([]Seg{{K: "T", Seed: 15, N: 9000}, {K: "K", N: 7000}})
		cm := []LZCfg{{DictCap: 4096}, {DictCap: 1 << 20, Props: true, LC: 0, LP: 0, PB: 0, EOS: true}, {DictCap: 65536, Props: true, LC: 1, LP: 2, PB: 3, Matcher: 1, SizeInHeader: true, Size: int64(len(in))},
			{DictCap: 6145, BufSize: 8192, SizeInHeader: true, Size: int64(len(in)), EOS: true}, {}}
		for i := range cm {
			for j := range cm {
				if i != j {
					c := cm[j]
					pre := cm[i]
					c.Pre = &pre
					add(LZWCase{Cfg: c, Shape: []Seg{{K: "T", Seed: 15, N: 9000}, {K: "K", N: 7000}}})
				}
			}
		}
	}
	// writer dictionary above the reader's default 8 MiB with a repeat farther back than that
	add(LZWCase{Cfg: LZCfg{DictCap: 12 << 20}, Shape: []Seg{{K: "T", Seed: 9, N: 3000}, {K: "R", Seed: 9, N: 8<<20 + 70000}, {K: "K", N: 3000}}})
	// a dictionary above 16 MiB (the header's dictionary size needs its fourth byte) with a repeat 17 MiB back
	add(LZWCase{Cfg: LZCfg{DictCap: 20 << 20}, Shape: []Seg{{K: "T", Seed: 10, N: 3000}, {K: "Z", N: 17 << 20}, {K: "K", N: 3000}}})
	if prop == "C07" {
		return lzmaFeedVariants(cases)
	}
	// (d) all write partitions of 6-byte inputs
	for _, in := range [][]byte{[]byte("abcabc"), {0, 0, 'a', 0, 'a', 'b'}} {
		nn := len(in)
		for mask := 0; mask < 1<<uint(nn-1); mask++ {
			var parts []int
			run := 1
			for i := 0; i < nn-1; i++ {
				if mask>>uint(i)&1 == 1 {
					parts = append(parts, run)
					run = 1
				} else {
					run++
				}
			}
			parts = append(parts, run)
			for mt := 0; mt < 2; mt++ {
				for _, mo := range modes(nn) {
					c := mo
					c.DictCap, c.Matcher = 4096, mt
					add(LZWCase{Cfg: c, Shape: []Seg{lit(in)}, Parts: parts})
					add(LZWCase{Cfg: c, Shape: []Seg{lit(in)}, Parts: append([]int{0}, append(parts, 0)...)})
				}
			}
		}
	}
	// (e) size-contract histories: all sequences of <=4 writes with lengths from {0,1,S-1,S,S+1}
	for _, S := range []int64{0, 1, 5} {
		lens := map[int]bool{0: true, 1: true}
		for _, v := range []int64{S - 1, S, S + 1} {
			if v >= 0 {
				lens[int(v)] = true
			}
		}
		var ls []int
		for v := 0; v <= 6; v++ {
			if lens[v] {
				ls = append(ls, v)
			}
		}
		if S > 0 {
			ls = append(ls, -1) // a Close in the middle
		}
		var rec func(pref []int)
		rec = func(pref []int) {
			for _, eos := range []bool{false, true} {
				for mt := 0; mt < 2; mt++ {
					if mt == 1 && len(pref) > 2 {
						continue
					}
					add(LZWCase{Cfg: LZCfg{DictCap: 4096, SizeInHeader: true, Size: S, EOS: eos, Matcher: mt}, Shape: []Seg{{K: "T", Seed: 5, N: 40}}, Parts: append([]int{}, pref...), Hist: true})
					if mt == 0 {
						add(LZWCase{Cfg: LZCfg{DictCap: 4096, SizeInHeader: true, Size: S, EOS: eos, Matcher: mt}, Shape: []Seg{{K: "T", Seed: 5, N: 40}}, Parts: append([]int{}, pref...), Hist: true, ByteSink: true})
					}
				}
			}
			if len(pref) == 4 {
				return
			}
			for _, l := range ls {
				rec(append(pref, l))
			}
		}
		rec(nil)
	}
	// (e2) the same contract with an announced size above the dictionary capacity (9000 > 4096):
	// whatever counts the accepted bytes must not be capped by the window. All sequences of <=3
	// writes with lengths from {1, 4096, 4904, 8999, 9000, 9001} then Close.
	{
		const S = 9000
		ls := []int{1, 4096, S - 4096, S - 1, S, S + 1, -1}
		var rec func(pref []int)
		rec = func(pref []int) {
			if len(pref) > 0 {
				for _, eos := range []bool{false, true} {
					add(LZWCase{Cfg: LZCfg{DictCap: 4096, SizeInHeader: true, Size: S, EOS: eos}, Shape: []Seg{{K: "T", Seed: 6, N: 3 * (S + 1)}}, Parts: append([]int{}, pref...), Hist: true})
					add(LZWCase{Cfg: LZCfg{DictCap: 4096, SizeInHeader: true, Size: S, EOS: eos}, Shape: []Seg{{K: "T", Seed: 6, N: 3 * (S + 1)}}, Parts: append([]int{}, pref...), Hist: true, ByteSink: true})
				}
			}
			if len(pref) == 3 {
				return
			}
			for _, l := range ls {
				rec(append(pref, l))
			}
		}
		rec(nil)
	}
	cases = lzmaFeedVariants(cases)
	return cases
}

// lzmaFeedVariants: the inputs of the families without explicit properties again, handed over by io.Copy
// from bare readers (which prefers a ReadFrom method of the writer, should it have one).
func lzmaFeedVariants(cases []LZWCase) []LZWCase {
	base := cases
	for _, c := range base {
		if c.Hist || len(c.Parts) > 0 || c.Cfg.Props || c.ByteSink {
			continue
		}
		feeds := []int{1, 2, 3, 4}
		if len(buildShape(c.Shape)) > 6000 {
			if c.Cfg.Matcher != 0 || c.Cfg.BufSize == 273 || c.Cfg.EOS {
				continue // cost bound: long inputs with the hash-table matcher and one termination mode each
			}
			feeds = []int{2, 3}
		}
		for _, f := range feeds {
			q := c
			q.Feed = f
			cases = append(cases, q)
		}
	}
	return cases
}

func runLZW(r *core.Run, prop string) {
	bindRef(r)
	cases := lzmaWCases(r, prop)
	r.Extra("cases_enumerated", len(cases))
	for _, i := range []int{0, len(cases) / 3, len(cases) / 2, len(cases) - 1} {
		c := cases[i]
		r.Sample(map[string]interface{}{"cfg": c.Cfg.String(), "input": shapeString(c.Shape), "parts": c.Parts, "history": c.Hist})
	}
	r.Parallel(len(cases), "classic LZMA writer cases", func(i int) { lzmaWriteCase(r, prop, cases[i]) })
}

func runC06(r *core.Run) {
	r.Rule = "classic LZMA writer space: (a) all strings over {00,'a','b'} up to length n x all 225 property codes x both matchers x {EOS only, Size=len, Size=len+EOS} (Size=0 for the empty input); (b) longer heads with a compressible tail; (c) shape lists of depth 1-2 x DictCap x BufSize; (d) all compositions of 6-byte inputs into Write calls (+ zero-length writes); (e) size-contract histories: all sequences of <=4 calls from {Write of 0,1,S-1,S,S+1 bytes, Close in the middle} then Close for S in {0,1,5}, and all sequences of <=3 calls from {Write of 1,4096,S-4096,S-1,S,S+1 bytes, Close in the middle} for S=9000 (above the 4096-byte dictionary), with a plain sink and with a sink that is an io.ByteWriter; (f) the inputs of (b)-(c) handed over by io.Copy from bare readers (full reads, last bytes together with io.EOF, short reads). Oracle: call contract, library round trip, header size truthful. states = (mode, accepted vs Size, close result); transitions = per-call classes; non-trivial = distinct (mode, result, size class, history length)"
	runLZW(r, "C06")
	r.Assume("property sets with lc+lp>8 run on a seventh of the inputs (literal table of up to 6 MB per coder: cost bound)")
}
