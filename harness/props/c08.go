package props

import (
	"bytes"
	"fmt"
	"io"
	"strings"

	"github.com/ulikunitz/xz/lzma"

	"verif/core"
	"verif/ref"
)

// C08 — LZMA2 writer: lossless for any call history; Flush yields a decodable prefix.

type C08Case struct {
	Cfg  L2Cfg
	Hist []string // "w10","w0","wR","wT","wA","f","c"
	// Sink: 0 a bare io.Writer; 1 also an io.ByteWriter; 2 a *bytes.Buffer
	Sink int `json:",omitempty"`
}

// c08Sink gives uniform access to what has arrived in the sink.
type c08Sink struct {
	kind int
	bare sinkByteBuf
	buf  bytes.Buffer
}

func (s *c08Sink) writer() io.Writer {
	switch s.kind {
	case 1:
		return &s.bare
	case 2:
		return &s.buf
	}
	return &s.bare.sinkBuf
}

func (s *c08Sink) bytes() []byte {
	if s.kind == 2 {
		return s.buf.Bytes()
	}
	return s.bare.b
}

func init() {
	register(&Check{ID: "C08", Level: "model_checking", Run: runC08})
	scenario("C08", "history", func(r *core.Run, c core.Case) {
		var p C08Case
		params(c, &p)
		c08History(r, p)
	})
}

var (
	c08R  = randBytes(31, 70000)
	c08R2 = randBytes(37, 70000)
	c08T  = textBytes(32, 70000)
	c08A  = bytes.Repeat([]byte{0xA5}, 1<<21+5)
	c08N  = noiseBytes(33, 70000)
	c08N2 = noiseBytes(34, 70000)
	c08P  = phraseBytes(35, 30000)
)

func c08Payload(op string, k int) []byte {
	switch op {
	case "w10":
		// ten bytes whose last four repeat a word five bytes back (a match finder that looks at the
		// last four pending bytes at a Flush / Close finds that word in its index)
		return []byte(fmt.Sprintf("x%04d-%04d", k%10000, k%10000))
	case "w0":
		return []byte{}
	case "wR":
		// calls at odd positions write different bytes: "wR,wR" is 140 000 fresh incompressible
		// bytes, "wR,x,wR" repeats the first buffer (a match source 70 000 bytes back)
		if k%2 == 1 {
			return c08R2
		}
		return c08R
	case "wT":
		return c08T
	case "wA":
		return c08A
	case "wN":
		// incompressible with planted repeats (stored raw after a compression attempt that used every
		// codec); calls at odd positions write other bytes
		if k%2 == 1 {
			return c08N2
		}
		return c08N
	case "wP":
		return c08P
	}
	if strings.HasPrefix(op, "wS:") {
		// "wS:<seed>": 70 000 incompressible bytes of generator seed <seed>
		var seed int
		fmt.Sscanf(op[3:], "%d", &seed)
		return randBytes(2000+seed, 70000)
	}
	if strings.HasPrefix(op, "wX:") {
		// "wX:<n>:<kind>": exactly n bytes of a run / text / incompressible data
		var n int
		var kind string
		fmt.Sscanf(op[3:], "%d:%s", &n, &kind)
		switch kind {
		case "run":
			return bytes.Repeat([]byte{'q'}, n)
		case "text":
			return textBytes(36, n)
		}
		return randBytes(36, n)
	}
	return nil
}

func c08History(r *core.Run, p C08Case) {
	cs := core.MkCase("C08", "history", p)
	cfg := p.Cfg.cfg()
	if err := cfg.Verify(); err != nil {
		r.Count("config_rejected_by_Verify", 1)
		return
	}
	dcap := p.Cfg.DictCap
	if dcap == 0 {
		dcap = 8 << 20
	}
	site := "lzma2W matcher=" + matcherName(p.Cfg.Matcher)
	if bs := p.Cfg.BufSize; dcap+map[bool]int{true: 4096, false: bs}[bs == 0] < 1<<16 {
		site += " dict+buf<64KiB"
	}
	desc := fmt.Sprintf("cfg=%+v history=%v sink=%s", p.Cfg, p.Hist, []string{"bare io.Writer", "io.ByteWriter", "*bytes.Buffer"}[p.Sink])
	snk := &c08Sink{kind: p.Sink}
	sinkW := snk.writer()
	var written []byte
	closed := false
	closeSink := 0
	st := "open-empty"
	fail := false
	pan := core.Guard(func() {
		w, err := p.Cfg.open(sinkW)
		if err != nil {
			r.Violate(cs, site+" → constructor-fails", desc, errStr(err), "nil")
			fail = true
			return
		}
		check := func(what string, withEnd bool) {
			data := snk.bytes()
			if withEnd {
				data = append(append([]byte(nil), snk.bytes()...), 0)
			}
			out, derr, proto, rp := lzma2Decode(data, dcap)
			if rp != nil || proto != "" || errClass(derr) != "EOF" || !bytes.Equal(out, written) {
				pv := ""
				if rp != nil {
					pv = rp.Value
				}
				r.Violate(cs, site+" → "+what+"-not-decodable(library)", desc, fmt.Sprintf("Reader2: %d bytes, %s %s %s, first difference at %d", len(out), errStr(derr), proto, pv, firstDiff(out, written)), fmt.Sprintf("%d bytes then io.EOF", len(written)))
				fail = true
			}
			rr := ref.DecodeLZMA2(data, uint32(dcap), false)
			if rr.Err != nil || !bytes.Equal(rr.Out, written) || rr.Consumed != len(data) {
				sig := site + " → " + what + "-not-decodable(reference)"
				if rr.IllegalSequence {
					sig = site + " → " + what + "-illegal-chunk-sequence"
				}
				r.Violate(cs, sig, desc, fmt.Sprintf("reference: %v, %d bytes", rr.Err, len(rr.Out)), fmt.Sprintf("%d bytes", len(written)))
				fail = true
			}
			for _, c := range rr.Chunks {
				r.Trans("chunk:" + c.StateBefore + " --" + c.Kind.String())
			}
		}
		for i, op := range p.Hist {
			before := len(snk.bytes())
			prev := st
			switch op {
			case "f":
				err := w.Flush()
				if closed {
					if err == nil || len(snk.bytes()) != before {
						r.Violate(cs, site+" → Flush-after-Close", desc, fmt.Sprintf("err=%s sink %d→%d", errStr(err), before, len(snk.bytes())), "error, nothing emitted")
					}
					break
				}
				if err != nil {
					r.Violate(cs, site+" → Flush-fails", desc, fmt.Sprintf("call %d: %s", i, errStr(err)), "nil")
					fail = true
					return
				}
				if st == "open-empty" && len(snk.bytes()) != before {
					r.Violate(cs, site+" → Flush-with-nothing-pending-emits", desc, fmt.Sprintf("sink %d→%d", before, len(snk.bytes())), "unchanged")
				}
				check("flushed-prefix", true)
				st = "open-empty"
			case "c":
				err := w.Close()
				if closed {
					if err == nil || len(snk.bytes()) != before {
						r.Violate(cs, site+" → Close-after-Close", desc, fmt.Sprintf("err=%s sink %d→%d", errStr(err), before, len(snk.bytes())), "error, nothing emitted")
					}
					break
				}
				if err != nil {
					r.Violate(cs, site+" → Close-fails", desc, fmt.Sprintf("call %d: %s", i, errStr(err)), "nil")
					fail = true
					return
				}
				closed = true
				closeSink = len(snk.bytes())
				check("closed-stream", false)
				st = "closed"
			default:
				q := c08Payload(op, i)
				n, err := w.Write(q)
				if closed {
					if err == nil || n != 0 || len(snk.bytes()) != before {
						r.Violate(cs, site+" → Write-after-Close", desc, fmt.Sprintf("n=%d err=%s sink %d→%d", n, errStr(err), before, len(snk.bytes())), "error, nothing emitted")
					}
					break
				}
				if err != nil || n != len(q) {
					r.Violate(cs, site+" → Write-fails", desc, fmt.Sprintf("call %d Write(%d) = (%d, %s)", i, len(q), n, errStr(err)), "(len(p), nil)")
					fail = true
					return
				}
				written = append(written, q...)
				if len(q) > 0 {
					st = "open-pending"
				}
			}
			r.Trans(prev + " --" + opClass(op) + "--> " + st)
			r.State(st)
			if fail {
				return
			}
		}
		_ = closeSink
		_ = lzma.HeaderLen
	})
	if pan != nil {
		r.Violate(cs, site+" → panic@"+pan.Site(), desc, pan.Value+" | "+pan.Stack, "no panic")
	}
	r.Trace(1)
	r.Eval(core.Hash(snk.bytes(), len(p.Hist)))
	// non-trivial: distinct (final state, call-class history, chunk-kind sequence of the output)
	hs := ""
	for _, op := range p.Hist {
		hs += opClass(op)[:1] + opClass(op)[len(opClass(op))-2:]
	}
	ks := ""
	rr := ref.DecodeLZMA2(append(append([]byte(nil), snk.bytes()...), 0), uint32(dcap), false)
	for _, c := range rr.Chunks {
		if len(ks) < 20 {
			ks += fmt.Sprint(int(c.Kind))
		}
	}
	r.Nontrivial(core.Hash(st, hs, ks, fail))
}

func opClass(op string) string {
	switch op {
	case "f":
		return "Flush"
	case "c":
		return "Close"
	case "w0":
		return "Write(empty)"
	case "w10":
		return "Write(small)"
	}
	return "Write(large)"
}

func runC08(r *core.Run) {
	bindRef(r)
	th := thorough(r)
	depth := 4
	if th {
		depth = 5
	}
	r.Rule = fmt.Sprintf("all call sequences up to length %d over {Write(10 B), Write(empty), Write(70000 incompressible), Write(70000 text), Flush, Close} x {DictCap 4096+BufSize 273, DictCap 65536, default 8 MiB, DictCap+BufSize = 65536 / 67192 (length<=3)} x both matchers; thorough adds Write(2 MiB+5 run) at depth<=3; all sequences up to length 3 (thorough 4) over {Write(recurring long phrases), Write(noise with planted repeats), Write(text), Flush}; a Write ending exactly on the 2 MiB chunk limit followed by Flush; the short, codec-pollution and exact-fill histories also on io.ByteWriter / *bytes.Buffer sinks and with the caller overwriting and reusing its configuration variable (incl. the Properties value behind the pointer) right after the constructor; plus deviation-bounded (<=2) placement of Flush / empty Write / Close inside 12 small writes. Oracle: after every Flush sink+0x00 decodes (library Reader2 AND reference) to all data written; empty Flush emits nothing; after Close full decode with both; calls after Close fail and emit nothing. states = writer states {open-empty, open-pending, closed}; transitions = (state, call class) and chunk-automaton steps of the outputs", depth)
	alpha := []string{"w10", "w0", "wR", "wT", "f", "c"}
	var cases []C08Case
	cfgs := []L2Cfg{{DictCap: 4096, BufSize: 273}, {DictCap: 65536}, {DictCap: 4096, BufSize: 273, Matcher: 1}, {DictCap: 65536, Matcher: 1}}
	var rec func(pref []string)
	rec = func(pref []string) {
		if len(pref) > 0 {
			for _, c := range cfgs {
				cases = append(cases, C08Case{Cfg: c, Hist: append([]string(nil), pref...)})
			}
			if len(pref) <= 3 {
				// DictCap+BufSize just above one full incompressible chunk: the raw form of a chunk is only
				// possible while its bytes are still resident
				cases = append(cases, C08Case{Cfg: L2Cfg{DictCap: 4096, BufSize: 61440}, Hist: append([]string(nil), pref...)})
				cases = append(cases, C08Case{Cfg: L2Cfg{DictCap: 59000, BufSize: 8192}, Hist: append([]string(nil), pref...)})
				cases = append(cases, C08Case{Cfg: L2Cfg{}, Hist: append([]string(nil), pref...)})
				cases = append(cases, C08Case{Cfg: L2Cfg{Props: true, LC: 0, LP: 4, PB: 0, DictCap: 4097, BufSize: 274}, Hist: append([]string(nil), pref...)})
			}
		}
		if len(pref) == depth {
			return
		}
		for _, a := range alpha {
			rec(append(pref, a))
		}
	}
	rec(nil)
	if th {
		a2 := []string{"w10", "wA", "wR", "f", "c"}
		var rec2 func(pref []string)
		rec2 = func(pref []string) {
			hasA := false
			for _, p := range pref {
				if p == "wA" {
					hasA = true
				}
			}
			if hasA {
				cases = append(cases, C08Case{Cfg: L2Cfg{DictCap: 65536}, Hist: append([]string(nil), pref...)}, C08Case{Cfg: L2Cfg{DictCap: 1 << 20}, Hist: append([]string(nil), pref...)})
			}
			if len(pref) == 3 {
				return
			}
			for _, a := range a2 {
				rec2(append(pref, a))
			}
		}
		rec2(nil)
	}
	// codec pollution: all sequences up to length 3 (thorough 4) over {Write(30000 recurring long
	// phrases), Write(70000 noise with planted repeats), Write(70000 text), Flush}. The compression
	// attempt on a noise chunk codes matches of every length / distance / rep class before the chunk
	// is stored raw; the next compressed chunk shows whether any codec of the saved state was shared.
	{
		pd := 3
		if th {
			pd = 4
		}
		a3 := []string{"wP", "wN", "wT", "f"}
		var rec3 func(pref []string)
		rec3 = func(pref []string) {
			if len(pref) > 0 {
				for _, c := range []L2Cfg{{DictCap: 65536}, {}, {DictCap: 1 << 20, Matcher: 1}, {Props: true, LC: 0, LP: 0, PB: 0, DictCap: 65536}, {Props: true, LC: 1, LP: 2, PB: 4, DictCap: 1 << 17}} {
					cases = append(cases, C08Case{Cfg: c, Hist: append(append([]string(nil), pref...), "c")})
				}
			}
			if len(pref) == pd {
				return
			}
			for _, a := range a3 {
				rec3(append(pref, a))
			}
		}
		rec3(nil)
	}
	// writes that fill the dictionary plus the look-ahead buffer exactly (and one byte less / more):
	// the in-Write compression then ends with nothing left to look ahead
	for _, c := range []L2Cfg{{DictCap: 4096, BufSize: 273}, {DictCap: 4096, BufSize: 4096}, {DictCap: 65536, BufSize: 4096}, {DictCap: 4096, BufSize: 273, Matcher: 1}} {
		for d := -1; d <= 1; d++ {
			n := c.DictCap + c.BufSize + d
			for _, kind := range []string{"run", "text", "random"} {
				if c.Matcher == 1 && kind == "run" && n > 10000 {
					continue
				}
				wx := fmt.Sprintf("wX:%d:%s", n, kind)
				cases = append(cases, C08Case{Cfg: c, Hist: []string{wx, "f", "c"}}, C08Case{Cfg: c, Hist: []string{wx, "c"}},
					C08Case{Cfg: c, Hist: []string{"w10", fmt.Sprintf("wX:%d:%s", n-10, kind), "f", "w10", "c"}}, C08Case{Cfg: c, Hist: []string{wx, wx, "f", "c"}})
			}
		}
	}
	// incompressible chunks of many generator seeds: what the encoder has pending at the moment the
	// 64 KiB compressed-size limit ends a chunk (the last operation found, the rep distances) differs
	// from seed to seed; the chunk is then stored raw and everything of the attempt must be forgotten
	ns := 600
	if th {
		ns = 3000
	}
	for seed := 0; seed < ns; seed++ {
		cfg := L2Cfg{}
		if seed%3 == 1 {
			cfg = L2Cfg{DictCap: 1 << 20, Matcher: seed % 2}
		}
		cases = append(cases, C08Case{Cfg: cfg, Hist: []string{fmt.Sprintf("wS:%d", seed), "w10", "c"}})
	}
	// configuration histories: a Writer2Config variable verified with configuration A, then set to B
	{
		cm := []L2Cfg{{DictCap: 4096, BufSize: 273}, {DictCap: 1 << 20, Props: true, LC: 0, LP: 0, PB: 0}, {DictCap: 65536, Props: true, LC: 1, LP: 2, PB: 3, Matcher: 1}, {DictCap: 6145, BufSize: 8192}, {}}
		for i := range cm {
			for j := range cm {
				if i != j {
					c := cm[j]
					pre := cm[i]
					c.Pre = &pre
					cases = append(cases, C08Case{Cfg: c, Hist: []string{"wP", "f", "wT", "c"}}, C08Case{Cfg: c, Hist: []string{"w10", "wR", "c"}})
				}
			}
		}
	}
	// a Write that ends exactly on the 2 MiB chunk limit (the chunk is completed inside Write), then
	// Flush: nothing is pending any more, yet everything written must have reached the sink
	{
		full := fmt.Sprintf("wX:%d:run", 1<<21)
		for _, c := range []L2Cfg{{DictCap: 65536}, {}} {
			for _, h := range [][]string{{full, "f", "w10", "c"}, {full, full, "f", "c"}, {"w10", "f", full, "f", "c"}, {full, "c"}} {
				for sk := 0; sk < 3; sk++ {
					cases = append(cases, C08Case{Cfg: c, Hist: h, Sink: sk})
				}
			}
		}
	}
	// other kinds of sink (an io.ByteWriter, a *bytes.Buffer) and a caller that reuses its configuration
	// variable right after the constructor: the short histories of the first configuration, the
	// codec-pollution and exact-fill families
	{
		base := cases
		for _, c := range base {
			if c.Sink != 0 || c.Cfg.Pre != nil {
				continue
			}
			small := len(c.Hist) <= 3 && c.Cfg == (L2Cfg{DictCap: 4096, BufSize: 273})
			polluted := len(c.Hist) > 0 && (c.Hist[0] == "wP" || c.Hist[0] == "wN" || strings.HasPrefix(c.Hist[0], "wX:"))
			if !small && !polluted {
				continue
			}
			for sk := 1; sk <= 2; sk++ {
				q := c
				q.Sink = sk
				cases = append(cases, q)
			}
			q := c
			q.Cfg.Scribble = true
			cases = append(cases, q)
			if !q.Cfg.Props {
				q.Cfg.Props, q.Cfg.LC, q.Cfg.LP, q.Cfg.PB = true, 2, 1, 3
				cases = append(cases, q)
			}
		}
	}
	r.Extra("history_cases", len(cases))
	r.Sample(cases[len(cases)/2])
	r.Sample(cases[len(cases)-1])
	r.Parallel(len(cases), "call histories", func(i int) { c08History(r, cases[i]) })
	// deviation-bounded placement inside 12 small writes
	for _, cfg := range []L2Cfg{{DictCap: 4096, BufSize: 273}, {DictCap: 4096, Matcher: 1}} {
		cfg := cfg
		e := &core.Explorer{Ctx: r, Name: "C08 deviation placement", Bound: 2, Workers: r.Workers, Stop: func() bool { return r.Expired("deviation placement") }, Body: func(x *core.X) {
			var h []string
			for i := 0; i < 12; i++ {
				switch x.Choose(4) {
				case 1:
					h = append(h, "f")
				case 2:
					h = append(h, "w0")
				case 3:
					h = append(h, "c")
				}
				h = append(h, "w10")
			}
			switch x.Choose(2) {
			case 1:
				h = append(h, "f")
			}
			h = append(h, "c")
			c08History(r, C08Case{Cfg: cfg, Hist: h})
		}}
		e.Run()
		r.Count("deviation_placement_executions", e.Executions)
		if !e.Complete {
			r.CapHit("deviation placement stopped by deadline")
		}
	}
	r.Extra("deviation_bound_completed", 2)
}
