package props

import (
	"encoding/binary"
	"fmt"
	"hash/crc32"

	"verif/ref"
)

// ---------- structural model of a single .xz stream ----------

type xzBlockM struct {
	Comp, Uncomp int64 // declared sizes; -1 = field absent
	FilterID     uint64
	PropSize     byte
	DictCode     byte
	FlagsExtra   byte // OR-ed into the block flags (reserved bits, filter count)
	HdrPad       []byte
	HdrSizeDelta int // added to the header size byte
	// raw 64-bit overrides (values a signed field cannot hold): when non-zero the field is written
	// as this unsigned integer; PropSizeV replaces the one-byte "size of properties" by a multi-byte
	// integer while still one property byte follows
	CompV, UncompV, PropSizeV uint64
	// Overrun: the header keeps its length, announces a compressed-size field, and every byte after
	// the flags has its continuation bit set: the field runs past the end of the header
	Overrun bool
	Data    []byte
	Pad     []byte
	Check   []byte
}

type xzRecM struct{ Unpadded, Uncomp uint64 }

type xzModel struct {
	HdrFlags [2]byte
	Blocks   []xzBlockM
	// overrides (nil/negative = consistent default)
	Count    int64
	Recs     []xzRecM // when nil: computed from the blocks
	RecDelta map[int][2]int64
	IdxPad   []byte
	Backward int64 // delta added to the stored backward size
	FtrFlags [2]byte
}

func putUv(x uint64) []byte {
	var b []byte
	for x >= 0x80 {
		b = append(b, byte(x)|0x80)
		x >>= 7
	}
	return append(b, byte(x))
}

// xzModelOf parses a valid single-stream file into the model.
func xzModelOf(data []byte) (*xzModel, error) {
	x := ref.DecodeXZ(data, ref.XZOptions{})
	if x.Err != nil || len(x.Streams) != 1 {
		return nil, fmt.Errorf("not a valid single stream: %v", x.Err)
	}
	st := x.Streams[0]
	m := &xzModel{HdrFlags: [2]byte{0, st.Check}, FtrFlags: [2]byte{0, st.Check}, Count: -1}
	cs := ref.CheckSize(st.Check)
	for _, b := range st.Blocks {
		bm := xzBlockM{Comp: -1, Uncomp: -1, FilterID: 0x21, PropSize: 1, DictCode: b.DictCode}
		if b.HasCompField {
			bm.Comp = int64(b.CompSize)
		}
		if b.HasUncompField {
			bm.Uncomp = int64(b.UncompSize)
		}
		bm.Data = append([]byte(nil), data[b.DataOff:b.DataOff+b.CompSize]...)
		bm.Pad = make([]byte, b.PadLen)
		bm.Check = append([]byte(nil), data[b.CheckOff:b.CheckOff+cs]...)
		// header padding as found
		hl := b.HeaderLen
		used := 2 + 3
		if b.HasCompField {
			used += len(putUv(uint64(b.CompSize)))
		}
		if b.HasUncompField {
			used += len(putUv(uint64(b.UncompSize)))
		}
		bm.HdrPad = make([]byte, hl-4-used)
		m.Blocks = append(m.Blocks, bm)
	}
	return m, nil
}

func (b *xzBlockM) header() []byte {
	h := []byte{0, b.FlagsExtra}
	if b.CompV != 0 {
		h[1] |= 0x40
		h = append(h, putUv(b.CompV)...)
	} else if b.Comp >= 0 {
		h[1] |= 0x40
		h = append(h, putUv(uint64(b.Comp))...)
	}
	if b.UncompV != 0 {
		h[1] |= 0x80
		h = append(h, putUv(b.UncompV)...)
	} else if b.Uncomp >= 0 {
		h[1] |= 0x80
		h = append(h, putUv(uint64(b.Uncomp))...)
	}
	h = append(h, putUv(b.FilterID)...)
	if b.PropSizeV != 0 {
		h = append(h, putUv(b.PropSizeV)...)
	} else {
		h = append(h, b.PropSize)
	}
	if b.PropSize >= 1 {
		h = append(h, b.DictCode)
		for i := 1; i < int(b.PropSize); i++ {
			h = append(h, 0)
		}
	}
	h = append(h, b.HdrPad...)
	for len(h)%4 != 0 {
		h = append(h, 0)
	}
	if b.Overrun {
		h[1] = 0x40
		for i := 2; i < len(h); i++ {
			h[i] = 0x80
		}
	}
	h[0] = byte((len(h)+4)/4 - 1 + b.HdrSizeDelta)
	return binary.LittleEndian.AppendUint32(h, crc32.ChecksumIEEE(h))
}

// emit serialises the model; every CRC32 is (re)computed so that only the
// edited cross-check can notice the edit.
func (m *xzModel) emit() []byte {
	out := []byte{0xFD, '7', 'z', 'X', 'Z', 0, m.HdrFlags[0], m.HdrFlags[1]}
	out = binary.LittleEndian.AppendUint32(out, crc32.ChecksumIEEE(out[6:8]))
	var recs []xzRecM
	for _, b := range m.Blocks {
		h := b.header()
		out = append(out, h...)
		out = append(out, b.Data...)
		out = append(out, b.Pad...)
		out = append(out, b.Check...)
		recs = append(recs, xzRecM{uint64(len(h) + len(b.Data) + len(b.Check)), 0})
	}
	// uncompressed sizes for the records come from the reference decode of each block
	for i, b := range m.Blocks {
		lr := ref.DecodeLZMA2(b.Data, 0xFFFFFFFF, false)
		recs[i].Uncomp = uint64(len(lr.Out))
	}
	if m.Recs != nil {
		recs = m.Recs
	}
	for i, d := range m.RecDelta {
		if i < len(recs) {
			recs[i].Unpadded = uint64(int64(recs[i].Unpadded) + d[0])
			recs[i].Uncomp = uint64(int64(recs[i].Uncomp) + d[1])
		}
	}
	is := len(out)
	out = append(out, 0)
	cnt := uint64(len(recs))
	if m.Count >= 0 {
		cnt = uint64(m.Count)
	}
	out = append(out, putUv(cnt)...)
	for _, r := range recs {
		out = append(out, putUv(r.Unpadded)...)
		out = append(out, putUv(r.Uncomp)...)
	}
	pad := (4 - (len(out)-is)%4) % 4
	if m.IdxPad != nil && len(m.IdxPad) == pad {
		out = append(out, m.IdxPad...)
	} else {
		out = append(out, make([]byte, pad)...)
	}
	out = binary.LittleEndian.AppendUint32(out, crc32.ChecksumIEEE(out[is:]))
	il := len(out) - is
	var f [12]byte
	binary.LittleEndian.PutUint32(f[4:], uint32(int64(il/4-1)+m.Backward))
	f[8], f[9], f[10], f[11] = m.FtrFlags[0], m.FtrFlags[1], 'Y', 'Z'
	binary.LittleEndian.PutUint32(f[0:], crc32.ChecksumIEEE(f[4:10]))
	return append(out, f[:]...)
}

// StructEdit is one field-level edit.
type StructEdit struct {
	Name string
	// Inconsistent: the edit makes the redundant metadata inconsistent or uses an
	// unsupported / reserved value, so the reader must report an error.
	Inconsistent bool
	apply        func(m *xzModel) bool // false: not applicable to this stream
}

// structEdits enumerates the field-level edits for a stream with nb blocks.
func structEdits(nb int) []StructEdit {
	var es []StructEdit
	add := func(name string, inc bool, f func(m *xzModel) bool) {
		es = append(es, StructEdit{Name: name, Inconsistent: inc, apply: f})
	}
	for id := 0; id < 16; id++ {
		id := byte(id)
		add(fmt.Sprintf("header.check=%d(footer unchanged)", id), true, func(m *xzModel) bool {
			if m.HdrFlags[1] == id {
				return false
			}
			m.HdrFlags[1] = id
			return true
		})
		add(fmt.Sprintf("footer.check=%d(header unchanged)", id), true, func(m *xzModel) bool {
			if m.FtrFlags[1] == id {
				return false
			}
			m.FtrFlags[1] = id
			return true
		})
		switch id {
		case 0, 1, 4, 10:
		default:
			add(fmt.Sprintf("header+footer.check=%d(unsupported)", id), true, func(m *xzModel) bool {
				m.HdrFlags[1], m.FtrFlags[1] = id, id
				for i := range m.Blocks {
					m.Blocks[i].Check = make([]byte, ref.CheckSize(id))
				}
				return true
			})
		}
	}
	for _, v := range []byte{1, 0x80} {
		v := v
		add(fmt.Sprintf("header.reserved-flags-byte=%#x", v), true, func(m *xzModel) bool { m.HdrFlags[0] = v; return true })
		add(fmt.Sprintf("footer.reserved-flags-byte=%#x", v), true, func(m *xzModel) bool { m.FtrFlags[0] = v; return true })
		add(fmt.Sprintf("header+footer.reserved-flags-byte=%#x", v), true, func(m *xzModel) bool { m.HdrFlags[0], m.FtrFlags[0] = v, v; return true })
	}
	for _, v := range []byte{0x10, 0x20, 0x40, 0x80} {
		v := v
		add(fmt.Sprintf("header+footer.reserved-check-high-bits=%#x", v), true, func(m *xzModel) bool { m.HdrFlags[1] |= v; m.FtrFlags[1] |= v; return true })
		add(fmt.Sprintf("header.reserved-check-high-bits=%#x(footer unchanged)", v), true, func(m *xzModel) bool { m.HdrFlags[1] |= v; return true })
		add(fmt.Sprintf("footer.reserved-check-high-bits=%#x(header unchanged)", v), true, func(m *xzModel) bool { m.FtrFlags[1] |= v; return true })
	}
	for bi := 0; bi < nb; bi++ {
		bi := bi
		blk := func(m *xzModel) *xzBlockM { return &m.Blocks[bi] }
		for _, bit := range []byte{0x04, 0x08, 0x10, 0x20} {
			bit := bit
			add(fmt.Sprintf("block%d.flags.reserved|=%#x", bi, bit), true, func(m *xzModel) bool { blk(m).FlagsExtra |= bit; return true })
		}
		for _, fc := range []byte{1, 2, 3} {
			fc := fc
			add(fmt.Sprintf("block%d.flags.filtercount=%d(unsupported)", bi, fc+1), true, func(m *xzModel) bool { blk(m).FlagsExtra |= fc; return true })
		}
		for _, d := range []int64{-1, 1} {
			d := d
			add(fmt.Sprintf("block%d.compsize%+d", bi, d), true, func(m *xzModel) bool {
				if blk(m).Comp < 0 {
					return false
				}
				blk(m).Comp += d
				return blk(m).Comp > 0
			})
			add(fmt.Sprintf("block%d.uncompsize%+d", bi, d), true, func(m *xzModel) bool {
				if blk(m).Uncomp < 0 {
					return false
				}
				blk(m).Uncomp += d
				return blk(m).Uncomp >= 0
			})
			add(fmt.Sprintf("block%d.add-compsize(actual%+d)", bi, d), true, func(m *xzModel) bool {
				if blk(m).Comp >= 0 {
					return false
				}
				blk(m).Comp = int64(len(blk(m).Data)) + d
				blk(m).HdrPad = nil
				return true
			})
			add(fmt.Sprintf("block%d.add-uncompsize(actual%+d)", bi, d), true, func(m *xzModel) bool {
				if blk(m).Uncomp >= 0 {
					return false
				}
				lr := ref.DecodeLZMA2(blk(m).Data, 0xFFFFFFFF, false)
				blk(m).Uncomp = int64(len(lr.Out)) + d
				blk(m).HdrPad = nil
				return blk(m).Uncomp >= 0
			})
			add(fmt.Sprintf("index.rec%d.unpadded%+d", bi, d), true, func(m *xzModel) bool {
				m.RecDelta = map[int][2]int64{bi: {d, 0}}
				return true
			})
			add(fmt.Sprintf("index.rec%d.uncompressed%+d", bi, d), true, func(m *xzModel) bool {
				lr := ref.DecodeLZMA2(blk(m).Data, 0xFFFFFFFF, false)
				if int64(len(lr.Out))+d < 0 {
					return false
				}
				m.RecDelta = map[int][2]int64{bi: {0, d}}
				return true
			})
		}
		// size fields at the values a reader is most likely to treat specially: 0 ("absent"?), 1, and
		// the largest values a 63-bit integer can hold; present fields are overwritten, absent ones added
		for _, v := range []int64{0, 1, 1<<62 + 1, 1<<63 - 1} {
			v := v
			add(fmt.Sprintf("block%d.compsize=%d", bi, v), true, func(m *xzModel) bool {
				if int64(len(blk(m).Data)) == v {
					return false
				}
				if blk(m).Comp < 0 {
					blk(m).HdrPad = nil
				}
				blk(m).Comp = v
				return true
			})
			add(fmt.Sprintf("block%d.uncompsize=%d", bi, v), true, func(m *xzModel) bool {
				lr := ref.DecodeLZMA2(blk(m).Data, 0xFFFFFFFF, false)
				if int64(len(lr.Out)) == v {
					return false
				}
				if blk(m).Uncomp < 0 {
					blk(m).HdrPad = nil
				}
				blk(m).Uncomp = v
				return true
			})
		}
		add(fmt.Sprintf("block%d.compsize*2", bi), true, func(m *xzModel) bool {
			if blk(m).Comp < 0 {
				return false
			}
			blk(m).Comp *= 2
			return true
		})
		add(fmt.Sprintf("block%d.uncompsize*2", bi), true, func(m *xzModel) bool {
			if blk(m).Uncomp <= 0 {
				return false
			}
			blk(m).Uncomp *= 2
			return true
		})
		// integers beyond 63 bits and multi-byte "size of properties" values (a conversion to a signed or
		// narrower type must not turn them into something acceptable)
		for _, v := range []uint64{1 << 63, 1<<64 - 1, 1<<63 + 1} {
			v := v
			add(fmt.Sprintf("block%d.compsize=%#x", bi, v), true, func(m *xzModel) bool { blk(m).CompV = v; blk(m).HdrPad = nil; return true })
			add(fmt.Sprintf("block%d.uncompsize=%#x", bi, v), true, func(m *xzModel) bool { blk(m).UncompV = v; blk(m).HdrPad = nil; return true })
		}
		for _, v := range []uint64{0x81, 0x101, 1<<32 + 1, 1<<63 - 1, 1 << 63, 1<<64 - 1, 1<<64 - 2} {
			v := v
			add(fmt.Sprintf("block%d.filter-propsize=%#x", bi, v), true, func(m *xzModel) bool { blk(m).PropSizeV = v; blk(m).HdrPad = nil; return true })
		}
		add(fmt.Sprintf("block%d.header-field-runs-past-the-header", bi), true, func(m *xzModel) bool { blk(m).Overrun = true; return true })
		// filter ids that agree with the LZMA2 id 0x21 in their low bits only
		for _, id := range []uint64{0x121, 0x2121, 0x10021, 1<<32 | 0x21, 1<<56 | 0x21, 1<<63 | 0x21} {
			id := id
			add(fmt.Sprintf("block%d.filterid=%#x(unsupported, low byte 0x21)", bi, id), true, func(m *xzModel) bool { blk(m).FilterID = id; blk(m).HdrPad = nil; return true })
		}
		for _, id := range []uint64{0x03, 0x04, 0x20, 0x22, 0x4000000000000000} {
			id := id
			add(fmt.Sprintf("block%d.filterid=%#x(unsupported)", bi, id), true, func(m *xzModel) bool { blk(m).FilterID = id; blk(m).HdrPad = nil; return true })
		}
		for _, ps := range []byte{0, 2} {
			ps := ps
			add(fmt.Sprintf("block%d.filter-propsize=%d", bi, ps), true, func(m *xzModel) bool { blk(m).PropSize = ps; blk(m).HdrPad = nil; return true })
		}
		for _, dc := range []byte{41, 42, 63, 64, 0x80, 0xFF} {
			dc := dc
			add(fmt.Sprintf("block%d.dictcode=%d(invalid)", bi, dc), true, func(m *xzModel) bool { blk(m).DictCode = dc; return true })
		}
		for pi := 0; pi < 3; pi++ {
			pi := pi
			add(fmt.Sprintf("block%d.header-padding[%d]=1", bi, pi), true, func(m *xzModel) bool {
				if pi >= len(blk(m).HdrPad) {
					return false
				}
				blk(m).HdrPad[pi] = 1
				return true
			})
			add(fmt.Sprintf("block%d.block-padding[%d]=0x80", bi, pi), true, func(m *xzModel) bool {
				if pi >= len(blk(m).Pad) {
					return false
				}
				blk(m).Pad[pi] = 0x80
				return true
			})
		}
		for _, ci := range []int{0, 3, 7, 31} {
			ci := ci
			add(fmt.Sprintf("block%d.check[%d]^=1", bi, ci), true, func(m *xzModel) bool {
				if ci >= len(blk(m).Check) {
					return false
				}
				blk(m).Check[ci] ^= 1
				return true
			})
		}
	}
	for _, d := range []int64{-1, 1} {
		d := d
		add(fmt.Sprintf("index.count%+d", d), true, func(m *xzModel) bool {
			m.Count = int64(len(m.Blocks)) + d
			return m.Count >= 0
		})
		add(fmt.Sprintf("footer.backward%+d", d), true, func(m *xzModel) bool { m.Backward = d; return true })
	}
	// compensating edits of two index records (deviation bound 2 on the index): every total a reader
	// could compare instead of the records themselves (record count, sum of unpadded sizes, sum of
	// uncompressed sizes, index size, backward size) stays the same
	for bi := 0; bi < nb; bi++ {
		for bj := bi + 1; bj < nb; bj++ {
			bi, bj := bi, bj
			for _, d := range []int64{-4, -1, 1, 4} {
				d := d
				add(fmt.Sprintf("index.rec%d.unpadded%+d,rec%d.unpadded%+d(sum unchanged)", bi, d, bj, -d), true, func(m *xzModel) bool {
					m.RecDelta = map[int][2]int64{bi: {d, 0}, bj: {-d, 0}}
					return true
				})
			}
			for _, d := range []int64{-1, 1} {
				d := d
				add(fmt.Sprintf("index.rec%d.uncompressed%+d,rec%d.uncompressed%+d(sum unchanged)", bi, d, bj, -d), true, func(m *xzModel) bool {
					for _, k := range []int{bi, bj} {
						lr := ref.DecodeLZMA2(m.Blocks[k].Data, 0xFFFFFFFF, false)
						if len(lr.Out) == 0 {
							return false
						}
					}
					m.RecDelta = map[int][2]int64{bi: {0, d}, bj: {0, -d}}
					return true
				})
			}
			add(fmt.Sprintf("index.swap-rec%d-rec%d", bi, bj), true, func(m *xzModel) bool {
				var recs []xzRecM
				for _, b := range m.Blocks {
					h := b.header()
					lr := ref.DecodeLZMA2(b.Data, 0xFFFFFFFF, false)
					recs = append(recs, xzRecM{uint64(len(h) + len(b.Data) + len(b.Check)), uint64(len(lr.Out))})
				}
				if recs[bi] == recs[bj] {
					return false
				}
				recs[bi], recs[bj] = recs[bj], recs[bi]
				m.Recs = recs
				return true
			})
		}
	}
	add("index.drop-last-record(count consistent)", true, func(m *xzModel) bool {
		if len(m.Blocks) < 1 {
			return false
		}
		// emit computes records from blocks; drop one through explicit records
		tmp := *m
		var recs []xzRecM
		for _, b := range tmp.Blocks {
			h := b.header()
			lr := ref.DecodeLZMA2(b.Data, 0xFFFFFFFF, false)
			recs = append(recs, xzRecM{uint64(len(h) + len(b.Data) + len(b.Check)), uint64(len(lr.Out))})
		}
		m.Recs = recs[:len(recs)-1]
		return true
	})
	for pi := 0; pi < 3; pi++ {
		pi := pi
		add(fmt.Sprintf("index.padding[%d]=1", pi), true, func(m *xzModel) bool {
			out := m.emit()
			x := ref.DecodeXZ(out, ref.XZOptions{})
			if x.Err != nil {
				return false
			}
			n := 0
			for _, f := range x.Fields {
				if f.Name == "index.padding" {
					n = f.Len
				}
			}
			if pi >= n {
				return false
			}
			m.IdxPad = make([]byte, n)
			m.IdxPad[pi] = 1
			return true
		})
	}
	// consistent edits (controls: must still decode)
	add("control: rewrite unchanged", false, func(m *xzModel) bool { return true })
	for bi := 0; bi < nb; bi++ {
		bi := bi
		add(fmt.Sprintf("control: block%d add correct size fields", bi), false, func(m *xzModel) bool {
			b := &m.Blocks[bi]
			lr := ref.DecodeLZMA2(b.Data, 0xFFFFFFFF, false)
			b.Comp, b.Uncomp = int64(len(b.Data)), int64(len(lr.Out))
			b.HdrPad = nil
			return true
		})
	}
	return es
}

// ---------- byte-level mutators ----------

// ByteMut is a byte-level mutation, serialisable for replay.
type ByteMut struct {
	Kind string // "flip" (bit), "burst", "del", "ins", "sub", "trunc"
	Pos  int    // bit position for flip/burst, byte offset otherwise
	Len  int    // burst length in bits
	Pat  int    // burst pattern 0 invert,1 set0,2 set1,3 alternate; for ins: 0 zero, 1 0xFF, 2 copy of neighbour
	Val  byte   // for sub
	W    uint64 `json:",omitempty"` // for setle / setbe: the value written into Len bytes at Pos
}

func (m ByteMut) String() string {
	switch m.Kind {
	case "flip":
		return fmt.Sprintf("flip bit %d (byte %d)", m.Pos, m.Pos/8)
	case "burst":
		return fmt.Sprintf("burst at bit %d len %d pattern %d", m.Pos, m.Len, m.Pat)
	case "sub":
		return fmt.Sprintf("byte %d := %#02x", m.Pos, m.Val)
	case "setle", "setbe":
		return fmt.Sprintf("%d-byte field at %d := %#x (%s)", m.Len, m.Pos, m.W, m.Kind[3:])
	}
	return fmt.Sprintf("%s at byte %d (variant %d)", m.Kind, m.Pos, m.Pat)
}

func (m ByteMut) apply(data []byte) []byte {
	out := append([]byte(nil), data...)
	switch m.Kind {
	case "flip":
		out[m.Pos/8] ^= 1 << uint(m.Pos%8)
	case "burst":
		for i := 0; i < m.Len; i++ {
			b := m.Pos + i
			if b/8 >= len(out) {
				break
			}
			mask := byte(1) << uint(b%8)
			switch m.Pat {
			case 0:
				out[b/8] ^= mask
			case 1:
				out[b/8] &^= mask
			case 2:
				out[b/8] |= mask
			case 3:
				if i%2 == 0 {
					out[b/8] |= mask
				} else {
					out[b/8] &^= mask
				}
			}
		}
	case "del":
		out = append(out[:m.Pos], out[m.Pos+1:]...)
	case "ins":
		var v byte
		switch m.Pat {
		case 1:
			v = 0xFF
		case 2:
			if m.Pos < len(data) {
				v = data[m.Pos]
			} else if len(data) > 0 {
				v = data[len(data)-1]
			}
		}
		out = append(out[:m.Pos], append([]byte{v}, out[m.Pos:]...)...)
	case "sub":
		out[m.Pos] = m.Val
	case "setle", "setbe":
		for i := 0; i < m.Len && m.Pos+i < len(out); i++ {
			sh := uint(8 * i)
			if m.Kind == "setbe" {
				sh = uint(8 * (m.Len - 1 - i))
			}
			out[m.Pos+i] = byte(m.W >> sh)
		}
	case "trunc":
		out = out[:m.Pos]
	}
	return out
}
