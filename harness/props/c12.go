package props

import (
	"bytes"
	"errors"
	"fmt"
	"io"

	"github.com/ulikunitz/xz"

	"verif/core"
	"verif/ref"
)

// C12 — concatenated streams decode to the concatenation; SingleStream takes one.

type C12Case struct {
	Streams  []int // indices into the menu
	Lead     int   // zero bytes before the first stream
	Pads     []int // zero bytes after each stream (len == len(Streams))
	Trailing int   // -1 none, else trailing bytes with this value
	TailLen  int   `json:",omitempty"` // number of trailing bytes (0 = 1); value 0x100 = first TailLen bytes of a stream header
	Single   bool
	// Poke = [i, j, v]: byte j of the padding after stream i is set to v (non-zero): garbage that
	// begins with zero bytes
	Poke []int `json:",omitempty"`
	// Src: how the underlying source delivers the file: 0 bytes.Reader, 1 full reads with the last
	// bytes delivered together with io.EOF, 2 one byte per Read, 3 one byte per Read and the last
	// one together with io.EOF
	Src int `json:",omitempty"`
	// DictCap of the ReaderConfig (0 = default): the reader's own capacity must not matter
	DictCap int `json:",omitempty"`
	// Stutter = k+1: the source answers the first Read that starts at file offset k with (0, error)
	// once (a transient failure that consumes nothing); the caller calls Read again (up to three
	// times). The end of the data may then be reported only for what the file really contains.
	Stutter int `json:",omitempty"`
	// Kind > 0: the source is sourceOf(Kind) (envkinds.go) instead of the fragmentation modes of Src
	Kind int `json:",omitempty"`
}

var errStutter = errors.New("transient source failure (injected)")

// modeSource is a deterministic io.Reader (not an io.ByteReader) with a fixed fragmentation.
type modeSource struct {
	data    []byte
	pos     int
	mode    int
	stutter int // offset+1 of the one transient failure, 0: none
}

func (m *modeSource) Read(p []byte) (int, error) {
	if len(p) == 0 {
		return 0, nil
	}
	if m.stutter > 0 && m.pos == m.stutter-1 {
		m.stutter = 0
		return 0, errStutter
	}
	rem := len(m.data) - m.pos
	if rem == 0 {
		return 0, io.EOF
	}
	n := len(p)
	if m.mode >= 2 {
		n = 1
	}
	if n > rem {
		n = rem
	}
	copy(p, m.data[m.pos:m.pos+n])
	m.pos += n
	if n == rem && (m.mode == 1 || m.mode == 3) {
		return n, io.EOF
	}
	return n, nil
}

func xzDecodeSrc(data []byte, dictCap int, single bool, mode int, stutter ...int) (out []byte, err error, proto string, pan *core.PanicInfo) {
	st := 0
	if len(stutter) > 0 {
		st = stutter[0]
	}
	if mode == 0 && st == 0 {
		return xzDecode(data, dictCap, single)
	}
	pan = core.Guard(func() {
		var rd *xz.Reader
		rd, err = xz.ReaderConfig{DictCap: dictCap, SingleStream: single}.NewReader(&modeSource{data: data, mode: mode, stutter: st})
		if err != nil {
			return
		}
		out, err, proto = readAll(rd, 4096, 256<<20)
		for retry := 0; retry < 3 && st > 0 && errors.Is(err, errStutter) && proto == ""; retry++ {
			// the caller calls Read again after the transient failure (not after an error of the
			// reader itself: the xz reader keeps no sticky error, a Read after "unexpected data"
			// answers io.EOF on the unchanged tree as well - the error has been reported by then)
			var more []byte
			more, err, proto = readAll(rd, 4096, 256<<20)
			out = append(out, more...)
		}
	})
	return
}

func init() {
	register(&Check{ID: "C12", Level: "model_checking", Run: runC12})
	scenario("C12", "concat", func(r *core.Run, c core.Case) {
		var p C12Case
		params(c, &p)
		c12Case(r, c12Menu(), p)
	})
}

// c12Base is the size of the base menu, which is crossed completely; the extended entries behind it
// are crossed with a reduced set of paddings.
const c12Base = 8

func c12Menu() []Stream {
	text := baseText
	var out []Stream
	add := func(name string, d, p []byte) { out = append(out, Stream{Name: name, Data: d, Plain: p}) }
	add("lib-crc64", mustLibXZ(XZCfg{DictCap: 4096}, text[:50]), text[:50])
	l2 := ref.EncodeLZMA2Simple(text[50:110], ref.Props{LC: 3, LP: 0, PB: 2}, 25)
	add("ref-crc32-sizes", ref.EncodeXZStream(ref.CheckCRC32, []ref.XZBlockSpec{{LZMA2: l2, Plain: text[50:110], DictCode: 0, CompField: true, UncompField: true}}), text[50:110])
	add("lib-empty", mustLibXZ(XZCfg{DictCap: 4096}, nil), nil)
	add("lib-sha256-3blocks", mustLibXZ(XZCfg{DictCap: 4096, Check: 10, BlockSize: 20}, text[110:160]), text[110:160])
	add("lib-nocheck", mustLibXZ(XZCfg{DictCap: 4096, NoCheck: true}, text[160:200]), text[160:200])
	for _, e := range bindRef(nil) {
		if e.File == "abc-crc64-lc0lp0pb0-d65536.xz" || (len(out) == 5 && e.Kind == "xz" && e.Len == 12) {
			add("liblzma:"+e.File, e.Data, e.Plain)
			break
		}
	}
	if len(out) != 6 {
		panic("C12: liblzma-written stream not found in the corpus")
	}
	// a stream without any block (what liblzma writes for empty input; the library's own writer
	// always emits one empty block): the footer directly follows an index with zero records
	add("ref-noblocks-crc32", ref.EncodeXZStream(ref.CheckCRC32, nil), nil)
	// a stream declaring a 64 KiB dictionary that uses a match 5000 bytes back, next to the 4 KiB
	// streams above: anything a reader keeps from one stream or block to the next must fit both
	far := append(append([]byte(nil), randBytes(12, 5000)...), randBytes(12, 300)...)
	add("lib-dict64k-dist5000", mustLibXZ(XZCfg{DictCap: 65536, Check: 1}, far), far)
	// extended menu (indices >= c12Base): streams with uncompressed chunks next to compressed ones,
	// with different dictionary sizes - what a reader keeps of its LZMA2 machinery from one stream
	// to the next (dictionary, decoder, the reader of uncompressed chunks) must fit all of them
	rnd := randBytes(13, 150)
	add("lib-dict4k-raw", mustLibXZ(XZCfg{DictCap: 4096, Check: 1}, rnd), rnd)
	g := ref.NewLZMA2Gen()
	g.Add(ref.ChunkSpec{Kind: ref.CRawReset, Raw: randBytes(14, 5000)})
	g.Add(ref.ChunkSpec{Kind: ref.CLZMAProps, Props: ref.Props{LC: 3, LP: 0, PB: 2}, Ops: []ref.Op{{Kind: ref.OpMatch, Len: 200, Dist: 5000}, {Kind: ref.OpLit, Byte: 'k'}, {Kind: ref.OpMatch, Len: 30, Dist: 4600}}})
	g.Add(ref.ChunkSpec{Kind: ref.CRaw, Raw: randBytes(15, 40)})
	g.Add(ref.ChunkSpec{Kind: ref.CEnd})
	add("ref-dict64k-raw+far+raw", ref.EncodeXZStream(ref.CheckCRC64, []ref.XZBlockSpec{{LZMA2: g.Out, Plain: g.Plain, DictCode: 8}}), g.Plain)
	return out
}

// c12Expect is the reference semantics of the statement.
func c12Expect(menu []Stream, p C12Case) (content []byte, wantErr bool) {
	if len(p.Poke) == 3 && !p.Single && p.Lead == 0 {
		// non-zero byte inside what would otherwise be padding: an error after the streams before it
		for i, s := range p.Streams {
			content = append(content, menu[s].Plain...)
			if i == p.Poke[0] || p.Pads[i]%4 != 0 {
				return content, true
			}
		}
		return content, true
	}
	if p.Single {
		content = menu[p.Streams[0]].Plain
		wantErr = p.Lead > 0 || len(p.Streams) > 1 || p.Pads[0] > 0 || p.Trailing >= 0
		if p.Lead > 0 {
			content = nil
		}
		return
	}
	for i, s := range p.Streams {
		if i == 0 && p.Lead > 0 {
			return nil, true
		}
		content = append(content, menu[s].Plain...)
		if p.Pads[i]%4 != 0 {
			return content, true
		}
	}
	if p.Trailing >= 0 {
		return content, true
	}
	return content, false
}

func c12Case(r *core.Run, menu []Stream, p C12Case) {
	var data []byte
	data = append(data, make([]byte, p.Lead)...)
	for i, s := range p.Streams {
		data = append(data, menu[s].Data...)
		pad := make([]byte, p.Pads[i])
		if len(p.Poke) == 3 && p.Poke[0] == i && p.Poke[1] < len(pad) {
			pad[p.Poke[1]] = byte(p.Poke[2])
		}
		data = append(data, pad...)
	}
	if p.Trailing >= 0 {
		n := p.TailLen
		if n == 0 {
			n = 1
		}
		for i := 0; i < n; i++ {
			if p.Trailing == 0x100 {
				data = append(data, menu[0].Data[i])
			} else {
				data = append(data, byte(p.Trailing))
			}
		}
	}
	cs := core.MkCase("C12", "concat", p)
	want, wantErr := c12Expect(menu, p)
	out, err, proto, pan := xzDecodeSrc(data, p.DictCap, p.Single, p.Src, p.Stutter)
	if p.Kind > 0 {
		pan = core.Guard(func() {
			var rd *xz.Reader
			rd, err = xz.ReaderConfig{DictCap: p.DictCap, SingleStream: p.Single}.NewReader(sourceOf(p.Kind, data))
			if err != nil {
				return
			}
			out, err, proto = readAll(rd, 4096, 256<<20)
		})
	}
	var names []string
	for _, s := range p.Streams {
		names = append(names, menu[s].Name)
	}
	desc := fmt.Sprintf("streams=%v lead=%d pads=%v trailing=%d single=%v poke=%v source-mode=%d ReaderConfig.DictCap=%d", names, p.Lead, p.Pads, p.Trailing, p.Single, p.Poke, p.Src, p.DictCap)
	if p.Kind > 0 {
		desc += "; source: " + sourceKindNames[p.Kind]
	}
	if p.Stutter > 0 {
		desc += fmt.Sprintf("; the source fails once (0 bytes, error) at file offset %d of %d and the caller calls Read again", p.Stutter-1, len(data))
	}
	cls := errClass(err)
	// site: what distinguishes the layout
	site := fmt.Sprintf("n=%d single=%v", len(p.Streams), p.Single)
	switch {
	case p.Lead > 0:
		site += " leading-padding"
	case p.Trailing >= 0:
		site += " trailing-nonzero"
	case len(p.Poke) == 3:
		site += " nonzero-inside-padding"
	default:
		mis := false
		for _, k := range p.Pads {
			if k%4 != 0 {
				mis = true
			}
		}
		if mis {
			site += " misaligned-padding"
		} else {
			site += " aligned"
		}
	}
	switch {
	case pan != nil:
		r.Violate(cs, "xzR concat "+site+" → panic@"+pan.Site(), desc, pan.Value, "no panic")
	case proto != "":
		r.Violate(cs, "xzR concat "+site+" → protocol", desc, proto, "")
	case wantErr && (cls == "EOF" || cls == "nil"):
		r.Violate(cs, "xzR concat "+site+" → accepted", desc, fmt.Sprintf("%d bytes then %s", len(out), cls), "an error")
	case wantErr && !bytes.HasPrefix(want, out) && !p.Single:
		r.Violate(cs, "xzR concat "+site+" → wrong-bytes-before-error", desc, fmt.Sprintf("%d bytes", len(out)), "a prefix of the expected content")
	case !wantErr && p.Stutter > 0 && cls != "EOF" && cls != "nil" && bytes.HasPrefix(want, out):
		// after a source failure the reader may stay in an error state: nothing wrong was accepted
	case !wantErr && (cls != "EOF" || !bytes.Equal(out, want)):
		r.Violate(cs, "xzR concat "+site+" → rejected-or-wrong", desc, fmt.Sprintf("%d bytes then %s, first difference at %d", len(out), errStr(err), firstDiff(out, want)), fmt.Sprintf("%d bytes then io.EOF", len(want)))
	}
	if p.Single && !wantErr && !bytes.Equal(out, want) {
		r.Violate(cs, "xzR concat "+site+" → wrong-content", desc, fmt.Sprintf("%d bytes", len(out)), fmt.Sprintf("%d bytes", len(want)))
	}
	if p.Single && wantErr && p.Lead == 0 && !bytes.Equal(out, want) && pan == nil && !(p.Stutter > 0 && bytes.HasPrefix(want, out)) {
		// SingleStream yields exactly the first stream's content, then the error
		r.Violate(cs, "xzR concat "+site+" → single-stream-content", desc, fmt.Sprintf("%d bytes before the error", len(out)), fmt.Sprintf("exactly the first stream's %d bytes", len(want)))
	}
	// automaton trace: S -stream-> B -pad(k mod 4)-> ...
	st := "start"
	step := func(ev string, to string) {
		r.Trans(st + " -" + ev + "-> " + to)
		r.State(to)
		st = to
	}
	r.State("start")
	if p.Lead > 0 {
		step(fmt.Sprintf("lead%%4=%d", p.Lead%4), "error")
	} else {
		for i := range p.Streams {
			step("stream", "between")
			if p.Pads[i] > 0 {
				if p.Pads[i]%4 == 0 {
					step("pad4k", "between")
				} else {
					step(fmt.Sprintf("pad%%4=%d", p.Pads[i]%4), "error")
					break
				}
			}
		}
		if st == "between" {
			if p.Trailing >= 0 {
				step("nonzero", "error")
			} else {
				step("eof", "done")
			}
		}
	}
	r.Trace(1)
	h := core.Hash(site, cls, len(out), wantErr)
	r.Eval(core.Hash(desc, cls, len(out)))
	r.Nontrivial(h)
}

func runC12(r *core.Run) {
	menu := c12Menu()
	r.Rule = "all lists of 1..3 streams over a base menu of 8 (plus two extended entries with uncompressed chunks and different dictionary sizes, crossed with aligned paddings; and ReaderConfig.DictCap in {default, 4096, 5000, 100000, 4 MiB}) (library-, reference- and liblzma-written; empty with one empty block and without any block; 4 check types; multi-block; 4 KiB and 64 KiB dictionaries with a far match) x 4 source modes (bytes.Reader / last bytes with io.EOF / one byte per Read / both) x padding: lists <=2: every length 0..16 between and after; lists of 3: {0,4,8} plus one misaligned; leading padding 1..8; trailing non-zero bytes (lengths 1..11); a non-zero byte at every position of a 4/8/12-byte padding group; x SingleStream on/off; lists of one and two streams x all paddings also through bufio sources whose fills end on and off the 4-byte grid; plus a transient source failure (0 bytes, error, once) at the end of each stream and at the start of every padding word behind it, with the caller calling Read again; oracle = 20-line reference semantics. states/transitions = stream-list automaton (start/between/error/done); non-trivial = distinct (layout class, outcome class, bytes, expectation)"
	var cases []C12Case
	n := c12Base // the base menu is crossed completely
	maxPad := 16
	for a := 0; a < n; a++ {
		for pa := 0; pa <= maxPad; pa++ {
			for _, single := range []bool{false, true} {
				cases = append(cases, C12Case{Streams: []int{a}, Pads: []int{pa}, Trailing: -1, Single: single})
			}
		}
		for lead := 1; lead <= 8; lead++ {
			cases = append(cases, C12Case{Streams: []int{a}, Lead: lead, Pads: []int{0}, Trailing: -1})
			cases = append(cases, C12Case{Streams: []int{a}, Lead: lead, Pads: []int{0}, Trailing: -1, Single: true})
		}
		for _, tr := range []int{1, 0xFD, 0xFF, 0xA5, 0x100} {
			for _, pa := range []int{0, 4, 8} {
				for tl := 1; tl <= 11; tl++ {
					if tl > 1 && tr != 0xA5 && tr != 0x100 {
						continue
					}
					cases = append(cases, C12Case{Streams: []int{a}, Pads: []int{pa}, Trailing: tr, TailLen: tl})
					cases = append(cases, C12Case{Streams: []int{a}, Pads: []int{pa}, Trailing: tr, TailLen: tl, Single: true})
					if a < 2 {
						cases = append(cases, C12Case{Streams: []int{a, 1 - a}, Pads: []int{pa, 4}, Trailing: tr, TailLen: tl})
					}
				}
			}
		}
		for b := 0; b < n; b++ {
			for pa := 0; pa <= maxPad; pa++ {
				for pb := 0; pb <= maxPad; pb++ {
					if false && pa > 9 && pb > 9 {
						continue
					}
					cases = append(cases, C12Case{Streams: []int{a, b}, Pads: []int{pa, pb}, Trailing: -1})
					if pb == 0 {
						cases = append(cases, C12Case{Streams: []int{a, b}, Pads: []int{pa, pb}, Trailing: -1, Single: true})
					}
				}
			}
			for c := 0; c < n; c++ {
				pads := []int{0, 4, 8}
				if true {
					pads = []int{0, 1, 2, 3, 4, 5, 7, 8, 12}
				}
				for _, pa := range pads {
					for _, pb := range pads {
						for _, pc := range pads {
							cases = append(cases, C12Case{Streams: []int{a, b, c}, Pads: []int{pa, pb, pc}, Trailing: -1})
						}
					}
				}
				for pos := 0; pos < 3; pos++ {
					for _, mis := range []int{1, 2, 3, 5, 6} {
						if false && mis > 3 {
							continue
						}
						p := []int{4, 0, 8}
						p[pos] = mis
						cases = append(cases, C12Case{Streams: []int{a, b, c}, Pads: p, Trailing: -1})
					}
				}
			}
		}
	}
	// the extended entries: every ordered pair and triple that contains one of them, aligned paddings
	for a := c12Base; a < len(menu); a++ {
		for b := 0; b < len(menu); b++ {
			for _, pa := range []int{0, 4, 8} {
				for _, pb := range []int{0, 4} {
					cases = append(cases, C12Case{Streams: []int{a, b}, Pads: []int{pa, pb}, Trailing: -1}, C12Case{Streams: []int{b, a}, Pads: []int{pa, pb}, Trailing: -1})
				}
			}
			for c := 0; c < len(menu); c++ {
				for _, pa := range []int{0, 4} {
					cases = append(cases, C12Case{Streams: []int{b, a, c}, Pads: []int{pa, 4 - pa, 0}, Trailing: -1}, C12Case{Streams: []int{a, b, c}, Pads: []int{0, pa, 4}, Trailing: -1}, C12Case{Streams: []int{b, c, a}, Pads: []int{pa, 0, 0}, Trailing: -1})
				}
			}
		}
		for _, single := range []bool{false, true} {
			for _, pa := range []int{0, 1, 4} {
				cases = append(cases, C12Case{Streams: []int{a}, Pads: []int{pa}, Trailing: -1, Single: single})
			}
		}
	}
	// the reader's own dictionary capacity (default, minimal, not representable, large) must not
	// change anything, in particular not what SingleStream means
	for _, dc := range []int{4096, 5000, 100000, 1 << 22} {
		for a := 0; a < len(menu); a++ {
			for _, single := range []bool{false, true} {
				for _, pa := range []int{0, 1, 4, 8} {
					cases = append(cases, C12Case{Streams: []int{a}, Pads: []int{pa}, Trailing: -1, Single: single, DictCap: dc})
					cases = append(cases, C12Case{Streams: []int{a, (a + 1) % len(menu)}, Pads: []int{pa, 0}, Trailing: -1, Single: single, DictCap: dc})
				}
				cases = append(cases, C12Case{Streams: []int{a}, Pads: []int{0}, Trailing: 0xFD, TailLen: 1, Single: single, DictCap: dc})
			}
		}
	}
	// a non-zero byte at every position of a 4/8/12-byte padding group, after the last stream and
	// between two streams
	for a := 0; a < n; a++ {
		for _, pl := range []int{4, 8, 12} {
			for j := 0; j < pl; j++ {
				for _, v := range []int{1, 0xFD, 0xFF} {
					for _, single := range []bool{false, true} {
						cases = append(cases, C12Case{Streams: []int{a}, Pads: []int{pl}, Trailing: -1, Poke: []int{0, j, v}, Single: single})
					}
					cases = append(cases, C12Case{Streams: []int{a, 0}, Pads: []int{pl, 0}, Trailing: -1, Poke: []int{0, j, v}})
					cases = append(cases, C12Case{Streams: []int{0, a}, Pads: []int{4, pl}, Trailing: -1, Poke: []int{1, j, v}})
				}
			}
		}
	}
	// transient source failures between the items of the file: the source answers (0, error) once at
	// offset k and the caller calls Read again; k = the end of each stream and the start of every
	// 4-byte padding word behind it (where the reader has consumed nothing of the next item: a
	// failure in the middle of an item loses the bytes already consumed on the unchanged tree too -
	// the reader makes no promise to resume there, and none is demanded)
	var stut []C12Case
	ns := 3
	if thorough(r) {
		ns = c12Base
	}
	for a := 0; a < ns; a++ {
		for _, pa := range []int{0, 4, 8, 3} {
			for _, single := range []bool{false, true} {
				for _, tr := range []int{-1, 0xFD, 0} {
					stut = append(stut, C12Case{Streams: []int{a}, Pads: []int{pa}, Trailing: tr, TailLen: 1, Single: single})
					if tr != 0 {
						stut = append(stut, C12Case{Streams: []int{a, (a + 1) % ns}, Pads: []int{pa, 4}, Trailing: tr, TailLen: 1, Single: single})
						stut = append(stut, C12Case{Streams: []int{a, (a + 2) % ns, a}, Pads: []int{4, pa, 0}, Trailing: tr, TailLen: 1, Single: single})
					}
				}
			}
		}
	}
	nst := 0
	for _, c := range stut {
		if c.Trailing == 0 {
			c.Trailing = -1 // plain end of file
			c.TailLen = 0
		} else if c.Trailing == -1 {
			c.TailLen = 0
		}
		off := 0
		total := 0
		for i, si := range c.Streams {
			total += len(menu[si].Data) + c.Pads[i]
		}
		if c.Trailing >= 0 {
			total++
		}
		for i, si := range c.Streams {
			off += len(menu[si].Data)
			for k := off; k <= off+c.Pads[i] && k <= total; k += 4 {
				for _, mode := range []int{0, 2} {
					q := c
					q.Stutter = k + 1
					q.Src = mode
					cases = append(cases, q)
					nst++
				}
			}
			off += c.Pads[i]
		}
	}
	r.Extra("transient_failure_cases", nst)
	// buffered sources (Peek / Discard / Buffered) whose fills end on and off the 4-byte grid: all lists
	// of one and two streams over the first three menu entries x all paddings 0..16, trailing bytes
	nk := 3 // quick: the first three menu entries; thorough: the whole base menu
	if thorough(r) {
		nk = c12Base
	}
	for _, kind := range []int{1, 2, 9, 10, 11} {
		for a := 0; a < nk; a++ {
			for pa := 0; pa <= maxPad; pa++ {
				for _, single := range []bool{false, true} {
					cases = append(cases, C12Case{Streams: []int{a}, Pads: []int{pa}, Trailing: -1, Single: single, Kind: kind})
				}
				cases = append(cases, C12Case{Streams: []int{a}, Pads: []int{pa}, Trailing: 0xFD, TailLen: 1, Kind: kind})
				for b := 0; b < nk; b++ {
					for _, pb := range []int{0, 1, 4, 7, 8} {
						cases = append(cases, C12Case{Streams: []int{a, b}, Pads: []int{pa, pb}, Trailing: -1, Kind: kind})
					}
				}
			}
		}
	}
	// every layout with every source mode (the SingleStream probe and the padding reads see short
	// reads and data delivered together with io.EOF)
	base := cases
	for mode := 1; mode <= 3; mode++ {
		for _, c := range base {
			if c.Stutter > 0 || c.Kind > 0 {
				continue
			}
			c.Src = mode
			cases = append(cases, c)
		}
	}
	r.Extra("cases", len(cases))
	r.Sample(cases[5])
	r.Sample(cases[len(cases)/2])
	r.Sample(cases[len(cases)-1])
	r.Parallel(len(cases), "stream lists", func(i int) { c12Case(r, menu, cases[i]) })
}
