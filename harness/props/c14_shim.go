//go:build verifshim

package props

import (
	"sync/atomic"

	shim "github.com/ulikunitz/xz/verifshim"

	"verif/sched"
)

func init() {
	shim.Hook = sched.HookSync
	shimCalls = func() int64 { return atomic.LoadInt64(&shim.Calls) }
}
