package props

import (
	"bufio"
	"bytes"
	"io"
	"os"
)

// Kinds of objects a caller may hand to the library, and ways a caller may move the data. The
// library (or a change to it) may look at the dynamic type of a reader / writer, or offer
// io.WriterTo / io.ReaderFrom itself, which io.Copy then prefers: the checks therefore repeat a
// sub-family of their cases over these menus.

// Source kinds (sourceOf):
//
//	0 *bytes.Reader (io.ByteReader, io.WriterTo, io.Seeker, Len)
//	1 *bufio.Reader with the smallest buffer (16 bytes): Peek / Discard / ReadByte / WriteTo
//	2 *bufio.Reader with the default buffer (what gxz passes)
//	3 bare io.Reader, one byte per call
//	4 bare io.Reader, half of what is asked for (at least one byte): short reads
//	5 bare io.Reader, full reads, the last bytes together with io.EOF
//	6 bare io.Reader, one byte per call, the last one together with io.EOF
//	7 *bytes.Buffer (io.ByteReader, io.WriterTo, io.ReaderFrom, Len, ...)
//	8 io.Reader + io.ByteReader and nothing else, full reads
//	9 *bufio.Reader with a 37-byte buffer (its fills end off every 4-byte grid)
//	10 *bufio.Reader (default size) over a bare source that hands out one byte per call
//	11 *bufio.Reader (default size) over a bare source that hands out five bytes per call
//	12 *os.File (an unlinked temporary file positioned at its start: io.Seeker, io.ReaderAt, io.WriterTo, Stat)
const nSourceKinds = 13

var sourceKindNames = []string{"bytes.Reader", "bufio(16)", "bufio(default)", "bare 1-byte", "bare half reads", "bare, data with EOF", "bare 1-byte, data with EOF", "bytes.Buffer", "Read+ReadByte only", "bufio(37)", "bufio over 1-byte reads", "bufio over 5-byte reads", "os.File"}

type bareSource struct {
	data    []byte
	step    int  // bytes per call; 0: all that is asked for; -1: half of what is asked for
	eofLast bool // the last bytes come together with io.EOF
}

func (p *bareSource) Read(b []byte) (int, error) {
	if len(b) == 0 {
		return 0, nil
	}
	if len(p.data) == 0 {
		return 0, io.EOF
	}
	n := len(b)
	switch {
	case p.step > 0 && n > p.step:
		n = p.step
	case p.step < 0:
		n = (n + 1) / 2
	}
	if n > len(p.data) {
		n = len(p.data)
	}
	copy(b, p.data[:n])
	p.data = p.data[n:]
	if p.eofLast && len(p.data) == 0 {
		return n, io.EOF
	}
	return n, nil
}

type byteSource struct{ bareSource }

func (p *byteSource) ReadByte() (byte, error) {
	if len(p.data) == 0 {
		return 0, io.EOF
	}
	c := p.data[0]
	p.data = p.data[1:]
	return c, nil
}

func sourceOf(kind int, data []byte) io.Reader {
	switch kind {
	case 1:
		return bufio.NewReaderSize(bytes.NewReader(data), 16)
	case 2:
		return bufio.NewReader(bytes.NewReader(data))
	case 3:
		return &bareSource{data: data, step: 1}
	case 4:
		return &bareSource{data: data, step: -1}
	case 5:
		return &bareSource{data: data, eofLast: true}
	case 6:
		return &bareSource{data: data, step: 1, eofLast: true}
	case 7:
		return bytes.NewBuffer(append([]byte(nil), data...))
	case 8:
		return &byteSource{bareSource{data: data}}
	case 9:
		return bufio.NewReaderSize(bytes.NewReader(data), 37)
	case 10:
		return bufio.NewReader(&bareSource{data: data, step: 1})
	case 11:
		return bufio.NewReader(&bareSource{data: data, step: 5})
	case 12:
		return tempFileWith(data)
	}
	return bytes.NewReader(data)
}

// tempFileWith returns an open, already unlinked temporary file that holds data and is positioned at
// its start (the descriptor is released by the runtime's finalizer).
func tempFileWith(data []byte) *os.File {
	f, err := os.CreateTemp("", "verif-src-")
	if err != nil {
		panic(err)
	}
	os.Remove(f.Name())
	if _, err := f.Write(data); err != nil {
		panic(err)
	}
	if _, err := f.Seek(0, io.SeekStart); err != nil {
		panic(err)
	}
	return f
}

// bareSink is an io.Writer and nothing else.
type bareSink struct{ b []byte }

func (s *bareSink) Write(p []byte) (int, error) { s.b = append(s.b, p...); return len(p), nil }

// Drain modes (drainOf): how the caller takes the decoded data out of a reader.
//
//	0 Read calls with a buffer of bufSize
//	1 io.Copy into a bare io.Writer: uses the reader's WriteTo when it offers one, else 32 KiB reads
//	2 io.Copy into a *bytes.Buffer: WriteTo when offered, else the buffer's ReadFrom (growing reads)
const nDrainModes = 3

var drainModeNames = []string{"Read loop", "io.Copy to a bare writer", "io.Copy to a bytes.Buffer"}

// drainOf returns the bytes delivered and the final status: io.EOF for a regular end (io.Copy's nil
// is mapped to it), the error otherwise.
func drainOf(rd io.Reader, mode, bufSize, limit int) (out []byte, err error, proto string) {
	switch mode {
	case 1:
		var s bareSink
		_, err = io.Copy(&s, rd)
		out = s.b
	case 2:
		var b bytes.Buffer
		_, err = io.Copy(&b, rd)
		out = b.Bytes()
	default:
		return readAll(rd, bufSize, limit)
	}
	if err == nil {
		err = io.EOF
	}
	return out, err, ""
}

// Feed modes (feedOf): how the caller hands the input to a writer.
//
//	0 one Write call
//	1 io.Copy from a bare reader with full reads (uses the writer's ReadFrom when it offers one)
//	2 io.Copy from a bare reader that delivers its last bytes together with io.EOF
//	3 io.Copy from a bare reader with short reads (half of what is asked for)
//	4 io.Copy from a bare reader handing out 1000 bytes per call, the last ones together with io.EOF
//	5 io.Copy from a bare reader handing out one byte per call
const nFeedModes = 6

var feedModeNames = []string{"Write", "io.Copy(full reads)", "io.Copy(data with EOF)", "io.Copy(half reads)", "io.Copy(1000-byte reads, data with EOF)", "io.Copy(1-byte reads)"}

func feedOf(w io.Writer, data []byte, mode int) (n int64, err error) {
	switch mode {
	case 1:
		return io.Copy(w, &bareSource{data: data})
	case 2:
		return io.Copy(w, &bareSource{data: data, eofLast: true})
	case 3:
		return io.Copy(w, &bareSource{data: data, step: -1})
	case 4:
		return io.Copy(w, &bareSource{data: data, step: 1000, eofLast: true})
	case 5:
		return io.Copy(w, &bareSource{data: data, step: 1})
	}
	k, err := w.Write(data)
	return int64(k), err
}
