package props

import (
	"bufio"
	"bytes"
	"crypto/sha256"
	"fmt"
	"io"
	"os"
	"os/exec"
	"strings"

	"github.com/ulikunitz/xz"
	"github.com/ulikunitz/xz/lzma"

	"verif/core"
	"verif/ref"
	"verif/sched"
)

// C14 — independent reader/writer instances are safe concurrently; output deterministic.

// shimCalls is set by the build-tagged file when the sync shim overlay is active.
var shimCalls func() int64

type C14Case struct {
	Scenario string
	Bound    int
	Choices  []int `json:",omitempty"`
}

func init() {
	register(&Check{ID: "C14", Level: "model_checking", Run: runC14})
	scenario("C14", "history", func(r *core.Run, c core.Case) {
		var p map[string]int
		params(c, &p)
		self, _ := os.Executable()
		a, b := fmt.Sprint(p["I"]), fmt.Sprint(p["J"])
		h0, _ := exec.Command(self, "c14-seq", "-", b).Output()
		h1, err := exec.Command(self, "c14-seq", a, b).Output()
		if err != nil || string(h0) != string(h1) {
			r.Violate(c, "history → result depends on an earlier instance", fmt.Sprintf("fresh process: body %s, then body %s", a, b), fmt.Sprintf("%s vs pristine %s (%v)", strings.TrimSpace(string(h1)), strings.TrimSpace(string(h0)), err), "equal")
		}
	})
	scenario("C14", "props", func(r *core.Run, c core.Case) {
		var p struct {
			Format     string
			First, Set int
		}
		params(c, &p)
		self, _ := os.Executable()
		fa := "-"
		if p.First >= 0 {
			fa = fmt.Sprint(p.First)
		}
		h0, _ := exec.Command(self, "c14-props", p.Format, "-", fmt.Sprint(p.Set)).Output()
		h1, _ := exec.Command(self, "c14-props", p.Format, fa).Output()
		l := strings.Fields(string(h1))
		if p.Set < 0 || p.Set >= len(l) || l[p.Set] != strings.TrimSpace(string(h0)) {
			r.Violate(c, "property matrix → "+p.Format+" output depends on the property sets used earlier in the process", fmt.Sprintf("first %d, set %d", p.First, p.Set), "differs", "equal")
		}
	})
	scenario("C14", "schedule", func(r *core.Run, c core.Case) {
		var p C14Case
		params(c, &p)
		for _, sc := range c14Scenarios() {
			if sc.name == p.Scenario {
				solo := c14Solo(sc)
				x := core.Replay(func(x *core.X) { c14Exec(r, sc, solo, p, x) }, p.Choices)
				_ = x
			}
		}
	})
}

// a body drives its own instance and returns an observation (bytes + error texts).
type c14Body struct {
	kind string
	run  func(point func()) []byte
}

type c14Scn struct {
	name   string
	bodies []c14Body
}

type pointWriter struct {
	b     []byte
	point func()
}

func (w *pointWriter) Write(p []byte) (int, error) {
	w.point()
	w.b = append(w.b, p...)
	return len(p), nil
}

type pointByteWriter struct{ pointWriter }

func (w *pointByteWriter) WriteByte(c byte) error {
	w.point()
	w.b = append(w.b, c)
	return nil
}

type pointReader struct {
	r     *bytes.Reader
	point func()
	frag  int // > 0: at most frag bytes per Read (headers arrive in pieces)
}

func (s *pointReader) Read(p []byte) (int, error) {
	s.point()
	if s.frag > 0 && len(p) > s.frag {
		p = p[:s.frag]
	}
	n, err := s.r.Read(p)
	if len(p) > 1 {
		// bulk reads go through staging buffers: the moment between "the source has filled the
		// buffer" and "the library consumes it" is a scheduling point too
		s.point()
	}
	return n, err
}

var c14Text = textBytes(77, 260)
var c14Long = append(textBytes(78, 6000), randBytes(78, 3000)...)

func c14XZWriter(cfg xz.WriterConfig, data []byte) c14Body {
	return c14Body{kind: "xzW", run: func(point func()) []byte {
		w := &pointWriter{point: point}
		var log bytes.Buffer
		point()
		xw, err := cfg.NewWriter(w)
		if err != nil {
			return []byte("ctor:" + err.Error())
		}
		h := len(data) / 2
		point()
		_, err = xw.Write(data[:h])
		fmt.Fprintf(&log, "w1:%v;", err)
		point()
		_, err = xw.Write(data[h:])
		fmt.Fprintf(&log, "w2:%v;", err)
		point()
		err = xw.Close()
		fmt.Fprintf(&log, "c:%v;", err)
		return append(log.Bytes(), w.b...)
	}}
}

// c14XZWriterBufio: as c14XZWriter, the sink is a *bufio.Writer (64 bytes) over the scheduling sink,
// flushed by the caller after Close; the data is handed over by io.Copy from a bare reader.
func c14XZWriterBufio(cfg xz.WriterConfig, data []byte) c14Body {
	return c14Body{kind: "xzW(bufio sink, io.Copy)", run: func(point func()) []byte {
		w := &pointWriter{point: point}
		bw := bufio.NewWriterSize(w, 64)
		var log bytes.Buffer
		point()
		xw, err := cfg.NewWriter(bw)
		if err != nil {
			return []byte("ctor:" + err.Error())
		}
		point()
		_, err = io.Copy(xw, &bareSource{data: data, step: 37, eofLast: true})
		fmt.Fprintf(&log, "copy:%v;", err)
		point()
		err = xw.Close()
		fmt.Fprintf(&log, "c:%v;", err)
		point()
		fmt.Fprintf(&log, "f:%v;", bw.Flush())
		return append(log.Bytes(), w.b...)
	}}
}

// c14XZReaderBufio: as c14XZReader, the source is a *bufio.Reader (16 bytes) over the scheduling source,
// and the data is taken out by io.Copy.
func c14XZReaderBufio(stream []byte) c14Body {
	return c14Body{kind: "xzR(bufio source, io.Copy)", run: func(point func()) []byte {
		src := &pointReader{r: bytes.NewReader(stream), point: point, frag: 7}
		point()
		rd, err := xz.ReaderConfig{DictCap: 4096}.NewReader(bufio.NewReaderSize(src, 16))
		if err != nil {
			return []byte("ctor:" + err.Error())
		}
		var out bareSink
		point()
		_, err = io.Copy(&out, rd)
		return append(out.b, []byte(fmt.Sprintf("|%v", err))...)
	}}
}

func c14XZReader(stream []byte) c14Body {
	return c14Body{kind: "xzR", run: func(point func()) []byte {
		src := &pointReader{r: bytes.NewReader(stream), point: point}
		point()
		rd, err := xz.ReaderConfig{DictCap: 4096}.NewReader(src)
		if err != nil {
			return []byte("ctor:" + err.Error())
		}
		var out []byte
		buf := make([]byte, 64)
		for {
			point()
			n, err := rd.Read(buf)
			out = append(out, buf[:n]...)
			if err != nil {
				return append(out, []byte("|"+err.Error())...)
			}
		}
	}}
}

func c14LZMAWriter(cfg lzma.WriterConfig, data []byte, byteWriter bool) c14Body {
	return c14Body{kind: "lzmaW", run: func(point func()) []byte {
		var sink io.Writer
		pw := &pointWriter{point: point}
		bw := &pointByteWriter{pointWriter{point: point}}
		if byteWriter {
			sink = bw
		} else {
			sink = pw
		}
		point()
		w, err := cfg.NewWriter(sink)
		if err != nil {
			return []byte("ctor:" + err.Error())
		}
		point()
		_, e1 := w.Write(data)
		point()
		e2 := w.Close()
		res := []byte(fmt.Sprintf("w:%v;c:%v;", e1, e2))
		if byteWriter {
			return append(res, bw.b...)
		}
		return append(res, pw.b...)
	}}
}

// c14LZMAWriterEarlyClose: a classic writer with the size in its header is closed after half of
// the announced bytes (Close must fail), is then given the rest and closed again: a history with
// an error path in the middle, during which other instances are created and used.
func c14LZMAWriterEarlyClose(cfg lzma.WriterConfig, data []byte) c14Body {
	return c14Body{kind: "lzmaW", run: func(point func()) []byte {
		pw := &pointWriter{point: point}
		cfg := cfg
		cfg.SizeInHeader, cfg.Size = true, int64(len(data))
		point()
		w, err := cfg.NewWriter(pw)
		if err != nil {
			return []byte("ctor:" + err.Error())
		}
		h := len(data) / 2
		point()
		_, e1 := w.Write(data[:h])
		point()
		e2 := w.Close()
		point()
		_, e3 := w.Write(data[h:])
		point()
		e4 := w.Close()
		return append([]byte(fmt.Sprintf("w:%v,early-close:%v,w:%v;c:%v;", e1, e2 != nil, e3, e4)), pw.b...)
	}}
}

// sweepSink fails (once, or from then on) at its k-th Write.
type sweepSink struct {
	k, calls int
	forever  bool
	point    func()
}

func (s *sweepSink) Write(p []byte) (int, error) {
	s.point()
	c := s.calls
	s.calls++
	if c == s.k || (s.forever && c > s.k) {
		return len(p) / 2, errInjected
	}
	return len(p), nil
}

// c14Seq runs a then b in one thread; the observation is b's (a's outcome list is a prefix).
func c14Seq(a, b c14Body) c14Body {
	return c14Body{kind: b.kind, run: func(point func()) []byte {
		a.run(point)
		return b.run(point)
	}}
}

// c14FaultSweep drives instances through their error paths: for every k a writer on a sink that
// fails at its k-th write (Write, Write, [Flush], Close, Close - errors ignored), or readers on
// every prefix of a stream and on sources failing at every offset. The result is the list of the
// (error / no error) outcomes, which is a function of the inputs only.
func c14FaultSweep(kind string) c14Body { return c14FaultSweepM(kind, []bool{false, true}) }

func c14FaultSweepM(kind string, modes []bool) c14Body {
	return c14Body{kind: "sweep-" + kind, run: func(point func()) []byte {
		t := c14Text
		var log bytes.Buffer
		rec := func(errs ...error) {
			for _, e := range errs {
				if e != nil {
					log.WriteByte('E')
				} else {
					log.WriteByte('.')
				}
			}
			log.WriteByte(';')
		}
		for k := 0; k < 42; k++ {
			if kind != "xzW" && k >= 14 {
				break
			}
			for _, forever := range modes {
				sink := &sweepSink{k: k / map[bool]int{true: 3, false: 1}[kind == "xzW"], forever: forever, point: point}
				core.Guard(func() {
					switch kind {
					case "xzW":
						// the check type rotates with k: CRC32, CRC64, SHA-256
						w, err := xz.WriterConfig{DictCap: 4096, BlockSize: 50, CheckSum: []byte{xz.CRC32, xz.CRC64, xz.SHA256}[k%3]}.NewWriter(sink)
						if err != nil {
							rec(err)
							return
						}
						_, e1 := w.Write(t[:90])
						_, e2 := w.Write(t[90:170])
						rec(e1, e2, w.Close(), w.Close())
					case "lzma2W":
						w, err := lzma.Writer2Config{DictCap: 4096}.NewWriter2(sink)
						if err != nil {
							rec(err)
							return
						}
						_, e1 := w.Write(t[:90])
						e2 := w.Flush()
						_, e3 := w.Write(randBytes(90+k, 80))
						rec(e1, e2, e3, w.Close(), w.Close())
					case "lzmaW":
						w, err := lzma.WriterConfig{DictCap: 4096}.NewWriter(sink)
						if err != nil {
							rec(err)
							return
						}
						_, e1 := w.Write(t[:120])
						rec(e1, w.Close(), w.Close())
					}
				})
			}
		}
		if kind == "readers" {
			dp := ref.Props{LC: 3, LP: 0, PB: 2}
			xzs := ref.EncodeXZStream(ref.CheckCRC32, []ref.XZBlockSpec{{LZMA2: ref.EncodeLZMA2Simple(t[:90], dp, 60), Plain: t[:90], DictCode: 0}, {LZMA2: ref.EncodeLZMA2Simple(t[90:150], dp, 60), Plain: t[90:150], DictCode: 0}})
			for cut := 0; cut < len(xzs); cut += 3 {
				core.Guard(func() {
					out, err, _, _ := xzDecode(xzs[:cut], 4096, false)
					rec(err)
					log.WriteByte(byte('0' + len(out)%10))
				})
			}
			l2 := ref.EncodeLZMA2Simple(t[:140], dp, 70)
			for cut := 0; cut < len(l2); cut += 3 {
				core.Guard(func() {
					rd, err := lzma.Reader2Config{DictCap: 4096}.NewReader2(bytes.NewReader(l2[:cut]))
					if err == nil {
						_, err = io.ReadAll(rd)
					}
					rec(err)
				})
			}
		}
		return log.Bytes()
	}}
}

func c14LZMA2Writer(cfg lzma.Writer2Config, data []byte) c14Body {
	return c14Body{kind: "lzma2W", run: func(point func()) []byte {
		pw := &pointWriter{point: point}
		point()
		w, err := cfg.NewWriter2(pw)
		if err != nil {
			return []byte("ctor:" + err.Error())
		}
		h := len(data) / 2
		point()
		_, e1 := w.Write(data[:h])
		point()
		e2 := w.Flush()
		point()
		_, e3 := w.Write(data[h:])
		point()
		e4 := w.Close()
		return append([]byte(fmt.Sprintf("%v;%v;%v;%v;", e1, e2, e3, e4)), pw.b...)
	}}
}

func c14LZMA2Reader(stream []byte) c14Body {
	return c14Body{kind: "lzma2R", run: func(point func()) []byte {
		src := &pointReader{r: bytes.NewReader(stream), point: point}
		point()
		rd, err := lzma.Reader2Config{DictCap: 4096}.NewReader2(src)
		if err != nil {
			return []byte("ctor:" + err.Error())
		}
		var out []byte
		buf := make([]byte, 50)
		for {
			point()
			n, err := rd.Read(buf)
			out = append(out, buf[:n]...)
			if err != nil {
				return append(out, []byte("|"+err.Error())...)
			}
		}
	}}
}

// c14LZMAReader: a classic .lzma reader on a source that delivers at most three bytes per Read (the
// 13-byte header arrives in five pieces, with a scheduling point before and after each).
func c14LZMAReader(stream []byte) c14Body {
	return c14Body{kind: "lzmaR", run: func(point func()) []byte {
		src := &pointReader{r: bytes.NewReader(stream), point: point, frag: 3}
		point()
		rd, err := lzma.ReaderConfig{DictCap: 4096}.NewReader(src)
		if err != nil {
			return []byte("ctor:" + err.Error())
		}
		var out []byte
		buf := make([]byte, 70)
		for {
			point()
			n, err := rd.Read(buf)
			out = append(out, buf[:n]...)
			if err != nil {
				return append(out, []byte("|"+err.Error())...)
			}
		}
	}}
}

func c14Scenarios() []c14Scn {
	t := c14Text
	small := xz.WriterConfig{DictCap: 4096, BlockSize: 100}
	bt := xz.WriterConfig{DictCap: 4096, Matcher: lzma.BinaryTree}
	stream := mustLibXZ(XZCfg{DictCap: 4096, BlockSize: 90, Check: 1}, t[:150])
	stream2 := mustLibXZ(XZCfg{DictCap: 4096, Check: 10}, t[100:230])
	l2 := mustLibLZMA2(L2Cfg{DictCap: 4096}, t[:140], []L2Step{{"w", 70}, {"f", 0}})
	return []c14Scn{
		{"xzW|xzW same input+config", []c14Body{c14XZWriter(small, t[:160]), c14XZWriter(small, t[:160])}},
		{"xzW(BinaryTree)|lzmaW(ByteWriter)", []c14Body{c14XZWriter(bt, t[:120]), c14LZMAWriter(lzma.WriterConfig{DictCap: 4096}, t[40:100], true)}},
		{"xzR|xzR", []c14Body{c14XZReader(stream), c14XZReader(stream2)}},
		{"xzW|xzR", []c14Body{c14XZWriter(small, t[50:200]), c14XZReader(stream)}},
		{"lzma2W(Flush)|lzma2R", []c14Body{c14LZMA2Writer(lzma.Writer2Config{DictCap: 4096}, t[:130]), c14LZMA2Reader(l2)}},
		{"xzW|xzR|lzmaW", []c14Body{c14XZWriter(small, t[:110]), c14XZReader(stream2), c14LZMAWriter(lzma.WriterConfig{DictCap: 4096, Matcher: lzma.BinaryTree}, t[20:90], false)}},
		// several KiB of input: hash-table collisions (and with them any dependence of the output on
		// recycled or shared tables) only show beyond a few hundred bytes
		{"xzW(64 KiB dict)|xzW(2 MiB dict) 8 KiB inputs", []c14Body{c14XZWriter(xz.WriterConfig{DictCap: 1 << 16}, c14Long[:8000]), c14XZWriter(xz.WriterConfig{DictCap: 2 << 20}, c14Long[1000:9000])}},
		// a writer whose first chunk is stored uncompressed (incompressible bytes, then Flush) next to a
		// writer with the same properties: state shared per Properties value shows here
		{"lzma2W(raw first chunk)|lzma2W same props", []c14Body{c14LZMA2Writer(lzma.Writer2Config{DictCap: 4096}, append(append([]byte(nil), randBytes(79, 60)...), t[:60]...)), c14LZMA2Writer(lzma.Writer2Config{DictCap: 4096}, t[30:150])}},
		{"xzW(CRC32, aligned block)|xzW(CRC32)", []c14Body{c14XZWriter(xz.WriterConfig{DictCap: 4096, CheckSum: xz.CRC32}, randBytes(80, 40)), c14XZWriter(xz.WriterConfig{DictCap: 4096, CheckSum: xz.CRC32}, randBytes(80, 42))}},
		// readers decoding uncompressed chunks (bulk copies through staging buffers)
		{"xzR(raw chunks)|lzma2R(raw chunks)", []c14Body{c14XZReader(mustLibXZ(XZCfg{DictCap: 4096, Check: 1, BlockSize: 100}, randBytes(84, 180))), c14LZMA2Reader(mustLibLZMA2(L2Cfg{DictCap: 4096}, randBytes(85, 160), []L2Step{{"w", 70}, {"f", 0}}))}},
		{"lzmaW(size, early Close, continued)|lzmaW (bufio)", []c14Body{c14LZMAWriterEarlyClose(lzma.WriterConfig{DictCap: 4096}, t[:80]), c14LZMAWriter(lzma.WriterConfig{DictCap: 4096}, t[10:70], false)}},
		// an error-path history (writers on sinks failing at every position) followed, in the same
		// thread, by a CRC32 writer with several blocks, next to another such writer
		{"sweep(xzW) then xzW(CRC32 blocks)|xzW(CRC32 blocks)", []c14Body{c14Seq(c14FaultSweepM("xzW", []bool{true}), c14XZWriter(xz.WriterConfig{DictCap: 4096, BlockSize: 40, CheckSum: xz.CRC32}, t[:130])), c14XZWriter(xz.WriterConfig{DictCap: 4096, BlockSize: 40, CheckSum: xz.CRC32}, t[20:140])}},
		{"sweep(xzW) then xzW(CRC64 blocks)|xzW(CRC64 blocks)", []c14Body{c14Seq(c14FaultSweepM("xzW", []bool{true}), c14XZWriter(xz.WriterConfig{DictCap: 4096, BlockSize: 40}, t[:130])), c14XZWriter(xz.WriterConfig{DictCap: 4096, BlockSize: 40}, t[20:140])}},
		{"sweep(xzW) then xzW(SHA-256 blocks)|xzR(SHA-256)", []c14Body{c14Seq(c14FaultSweepM("xzW", []bool{false}), c14XZWriter(xz.WriterConfig{DictCap: 4096, BlockSize: 40, CheckSum: xz.SHA256}, t[:130])), c14XZReader(stream2)}},
		// LZMA2 writers driven through their error paths (sink failing once at every position, the
		// failed call and Close repeated), then two LZMA2 writers side by side: whatever an instance
		// hands back on its way out must not be handed to two later instances
		{"sweep(lzma2W) then lzma2W(Flush)|lzma2W(Flush)", []c14Body{c14Seq(c14FaultSweepM("lzma2W", []bool{false}), c14LZMA2Writer(lzma.Writer2Config{DictCap: 4096}, t[:130])), c14LZMA2Writer(lzma.Writer2Config{DictCap: 4096}, t[30:150])}},
		// buffered sinks and sources (what gxz passes), data moved by io.Copy: fast paths for such
		// objects and ReadFrom / WriteTo methods must not share anything between instances either
		{"xzW(bufio sink, io.Copy)|xzW(bufio sink, io.Copy)", []c14Body{c14XZWriterBufio(small, t[:150]), c14XZWriterBufio(xz.WriterConfig{DictCap: 4096, CheckSum: xz.CRC32}, t[30:170])}},
		{"xzR(bufio source, io.Copy)|xzR(bufio source, io.Copy)", []c14Body{c14XZReaderBufio(stream), c14XZReaderBufio(stream2)}},
		// two classic readers whose headers differ in every field (properties, dictionary size, size)
		{"lzmaR|lzmaR different headers", []c14Body{c14LZMAReader(mustLibLZMA(LZCfg{DictCap: 4096}, t[:60])), c14LZMAReader(mustLibLZMA(LZCfg{Props: true, LC: 0, LP: 2, PB: 1, DictCap: 1 << 16, SizeInHeader: true, Size: 50}, t[30:80]))}},
		{"lzmaW|lzmaW same props (bufio)", []c14Body{c14LZMAWriter(lzma.WriterConfig{DictCap: 4096}, t[:90], false), c14LZMAWriter(lzma.WriterConfig{DictCap: 4096}, t[10:100], false)}},
	}
}

// c14Menu is the body menu of the history check: every ordered pair (i, j) is executed in a
// fresh process - body i, then body j - and the result of j must equal its result in a process
// where nothing ran before it (state that survives an instance shows as a difference).
func c14Menu() []c14Body {
	t := c14Text
	rt := append(append([]byte(nil), randBytes(81, 60)...), t[:100]...)
	big := append(append([]byte(nil), randBytes(82, 70000)...), textBytes(82, 3000)...)
	// the streams the reader bodies decode are written by the reference encoder: building the menu
	// must not touch the library, otherwise the "pristine" process of the differential oracle has
	// already created library instances (and filled whatever they leave behind)
	dp := ref.Props{LC: 3, LP: 0, PB: 2}
	stream := ref.EncodeXZStream(ref.CheckCRC32, []ref.XZBlockSpec{
		{LZMA2: ref.EncodeLZMA2Simple(t[:90], dp, 60), Plain: t[:90], DictCode: 0},
		{LZMA2: ref.EncodeLZMA2Simple(t[90:150], dp, 60), Plain: t[90:150], DictCode: 0}})
	l2 := ref.EncodeLZMA2Simple(t[:140], dp, 70)
	lz, _, lzErr := ref.EncodeAlone(dp, 4096, ref.GreedyOps(0, t[:120], 4096), false, true)
	if lzErr != nil {
		panic(lzErr)
	}
	m := []c14Body{
		c14XZWriter(xz.WriterConfig{DictCap: 4096}, t[:200]),
		c14XZWriter(xz.WriterConfig{DictCap: 4096, BlockSize: 64}, t[20:250]),
		c14XZWriter(xz.WriterConfig{DictCap: 1 << 16}, big),
		c14XZWriter(xz.WriterConfig{DictCap: 2 << 20}, c14Long[:8000]),
		c14XZWriter(xz.WriterConfig{DictCap: 1 << 16}, c14Long[1000:9000]),
		c14XZWriter(xz.WriterConfig{DictCap: 4096, Matcher: lzma.BinaryTree}, t[:180]),
		c14XZWriter(xz.WriterConfig{DictCap: 4096, CheckSum: xz.SHA256}, t[10:190]),
		c14XZWriter(xz.WriterConfig{DictCap: 4096, NoCheckSum: true}, t[5:170]),
		c14XZWriter(xz.WriterConfig{DictCap: 4096, Properties: &lzma.Properties{LC: 0, LP: 2, PB: 1}}, t[:150]),
		c14XZWriter(xz.WriterConfig{DictCap: 4096, Properties: &lzma.Properties{LC: 0, LP: 2, PB: 1}}, rt),
		c14LZMA2Writer(lzma.Writer2Config{DictCap: 4096}, rt),
		c14LZMA2Writer(lzma.Writer2Config{DictCap: 4096}, t[30:150]),
		c14LZMAWriter(lzma.WriterConfig{DictCap: 4096}, t[:90], false),
		c14LZMAWriter(lzma.WriterConfig{DictCap: 4096, Size: 60}, t[40:100], true),
		c14LZMAWriter(lzma.WriterConfig{DictCap: 4096, Matcher: lzma.BinaryTree}, t[20:90], false),
		c14XZReader(stream),
		c14LZMA2Reader(l2),
		{kind: "lzmaR", run: func(point func()) []byte {
			out, err, _, _ := lzmaDecode(lz, 4096)
			return append(out, []byte("|"+errStr(err))...)
		}},
	}
	rg := ref.NewLZMA2Gen()
	rg.Add(ref.ChunkSpec{Kind: ref.CRawReset, Raw: randBytes(84, 100)})
	rg.Add(ref.ChunkSpec{Kind: ref.CRaw, Raw: randBytes(86, 80)})
	rg.Add(ref.ChunkSpec{Kind: ref.CEnd})
	rawx := ref.EncodeXZStream(ref.CheckCRC32, []ref.XZBlockSpec{{LZMA2: rg.Out, Plain: rg.Plain, DictCode: 0}})
	m = append(m, c14XZReader(rawx),
		// same lc+lp, different pb / same literal table size, different split
		c14XZWriter(xz.WriterConfig{DictCap: 4096, Properties: &lzma.Properties{LC: 3, LP: 0, PB: 0}}, t[:200]),
		c14XZWriter(xz.WriterConfig{DictCap: 4096, Properties: &lzma.Properties{LC: 2, LP: 1, PB: 2}}, t[:200]),
		c14XZWriter(xz.WriterConfig{DictCap: 4096, Properties: &lzma.Properties{LC: 0, LP: 2, PB: 4}}, t[:150]),
		c14LZMAWriter(lzma.WriterConfig{DictCap: 4096, Properties: &lzma.Properties{LC: 3, LP: 0, PB: 4}}, t[:90], false),
		// every way two property sets can agree in part (same lc+lp and pb with another split, same
		// lc and pb, same lp and pb, same lc and lp): a cache keyed by less than (lc, lp, pb) shows
		c14XZWriter(xz.WriterConfig{DictCap: 4096, Properties: &lzma.Properties{LC: 0, LP: 3, PB: 2}}, t[:200]),
		c14XZWriter(xz.WriterConfig{DictCap: 4096, Properties: &lzma.Properties{LC: 3, LP: 1, PB: 2}}, t[:200]),
		c14XZWriter(xz.WriterConfig{DictCap: 4096, Properties: &lzma.Properties{LC: 2, LP: 0, PB: 2}}, t[:200]),
		c14LZMAWriter(lzma.WriterConfig{DictCap: 4096, Properties: &lzma.Properties{LC: 2, LP: 1, PB: 2}}, t[:90], false),
		c14LZMA2Writer(lzma.Writer2Config{DictCap: 4096, Properties: &lzma.Properties{LC: 1, LP: 2, PB: 2}}, t[30:150]),
		c14LZMAWriterEarlyClose(lzma.WriterConfig{DictCap: 4096}, t[:80]),
		// BinaryTree writers with different dictionary sizes and inputs longer than the smaller
		// dictionary (anything recycled from the bigger one must be cut to size)
		c14XZWriter(xz.WriterConfig{DictCap: 1 << 16, Matcher: lzma.BinaryTree}, c14Long[:8000]),
		c14XZWriter(xz.WriterConfig{DictCap: 4096, Matcher: lzma.BinaryTree}, c14Long[200:8200]),
		c14LZMA2Writer(lzma.Writer2Config{DictCap: 8192, Matcher: lzma.BinaryTree}, c14Long[100:9000]),
		c14LZMAWriter(lzma.WriterConfig{DictCap: 4096, Matcher: lzma.BinaryTree}, c14Long[300:7000], false),
		// error-path histories: writers on sinks that fail at every position, readers on sources that
		// end or fail at every position - what they leave behind must not reach a later instance
		c14FaultSweep("xzW"), c14FaultSweep("lzma2W"), c14FaultSweep("lzmaW"), c14FaultSweep("readers"),
	)
	// four CRC32 writers with raw payloads of consecutive lengths: one of them has a block whose
	// compressed size is a multiple of four (no block padding)
	for n := 40; n < 44; n++ {
		m = append(m, c14XZWriter(xz.WriterConfig{DictCap: 4096, CheckSum: xz.CRC32}, randBytes(83, n)))
	}
	return m
}

// C14SeqMain is the child of the history check: `vcheck c14-seq <i|-> <j>` runs body i (if
// any), then body j, and prints the SHA-256 of j's result.
func C14SeqMain(args []string) int {
	m := c14Menu()
	var i, j int
	if len(args) != 2 {
		return 2
	}
	fmt.Sscan(args[1], &j)
	if args[0] != "-" {
		fmt.Sscan(args[0], &i)
		m[i].run(func() {})
	}
	fmt.Printf("%x\n", sha256.Sum256(m[j].run(func() {})))
	return 0
}

func c14Solo(sc c14Scn) [][]byte {
	var out [][]byte
	for _, b := range sc.bodies {
		out = append(out, b.run(func() {}))
	}
	return out
}

func c14Exec(r *core.Run, sc c14Scn, solo [][]byte, p C14Case, x *core.X) {
	results := make([][]byte, len(sc.bodies))
	var bodies []func(t *sched.T)
	for i, b := range sc.bodies {
		i, b := i, b
		bodies = append(bodies, func(t *sched.T) { results[i] = b.run(t.Point) })
	}
	s, pans, err := sched.Run(x, bodies)
	mk := func() core.Case {
		q := p
		q.Choices = append([]int(nil), x.Choices...)
		return core.MkCase("C14", "schedule", q)
	}
	desc := fmt.Sprintf("scenario %s, preemption bound %d, %d scheduling points, schedule %v", sc.name, p.Bound, s.Points, compressTrace(s.Trace))
	if err != nil {
		r.Violate(mk(), "sched "+sc.name+" → deadlock", desc, err.Error(), "progress")
	}
	for i := range sc.bodies {
		if pans[i] != nil {
			r.Violate(mk(), fmt.Sprintf("sched %s → panic in %s", sc.name, sc.bodies[i].kind), desc, fmt.Sprint(pans[i]), "no panic")
			continue
		}
		if !bytes.Equal(results[i], solo[i]) {
			r.Violate(mk(), fmt.Sprintf("sched %s → %s result differs from its solo run", sc.name, sc.bodies[i].kind), desc,
				fmt.Sprintf("thread %d: %d bytes, first difference at %d", i, len(results[i]), firstDiff(results[i], solo[i])), "the result of the solo run")
		}
	}
	r.Eval(core.Hash(results))
	r.Nontrivial(core.Hash(sc.name, compressTrace(s.Trace)))
	r.Trace(1)
}

// c14History runs every ordered pair (i, j) of c14Menu in a fresh process and compares the result
// of j with its result in a process where nothing ran before.
func c14History(r *core.Run) {
	self, err := os.Executable()
	if err != nil {
		r.CapHit("history check not run: " + err.Error())
		return
	}
	n := len(c14Menu())
	child := func(a, b string) (string, error) {
		out, err := exec.Command(self, "c14-seq", a, b).Output()
		return strings.TrimSpace(string(out)), err
	}
	pristine := make([]string, n)
	for j := 0; j < n; j++ {
		h, err := child("-", fmt.Sprint(j))
		if err != nil || len(h) != 64 {
			r.Violate(core.MkCase("C14", "history", map[string]int{"I": -1, "J": j}), "history → body fails in a fresh process", fmt.Sprintf("body %d alone", j), fmt.Sprint(err), "a result")
			return
		}
		pristine[j] = h
	}
	r.Parallel(n*n, "history pairs", func(k int) {
		i, j := k/n, k%n
		h, err := child(fmt.Sprint(i), fmt.Sprint(j))
		m := c14Menu()
		desc := fmt.Sprintf("fresh process: body %d (%s) runs to completion, then body %d (%s)", i, m[i].kind, j, m[j].kind)
		cs := core.MkCase("C14", "history", map[string]int{"I": i, "J": j})
		switch {
		case err != nil:
			r.Violate(cs, fmt.Sprintf("history → %s after %s fails", m[j].kind, m[i].kind), desc, err.Error(), "the result of a fresh process")
		case h != pristine[j]:
			r.Violate(cs, fmt.Sprintf("history → %s result depends on an earlier %s instance", m[j].kind, m[i].kind), desc, "result differs from the one in a process where nothing ran before", "deterministic function of configuration and input")
		}
		r.Eval(core.Hash("history", i, j, h))
		r.Nontrivial(core.Hash("history", i, j))
		r.Trace(1)
	})
	r.Extra("history_pairs", n*n)
	r.State("history")
	r.Trans(fmt.Sprintf("history: %d ordered pairs of %d bodies, each in a fresh process", n*n, n))
}

// ---- property matrix: every property set after every other one ----

func c14PropSets(format string) [][3]int {
	if format == "lzma2W" {
		return allProps2()
	}
	var out [][3]int
	for lc := 0; lc <= 8; lc++ {
		for lp := 0; lp <= 4; lp++ {
			for pb := 0; pb <= 4; pb++ {
				out = append(out, [3]int{lc, lp, pb})
			}
		}
	}
	return out
}

func c14PropBody(format string, p [3]int) []byte {
	pr := &lzma.Properties{LC: p[0], LP: p[1], PB: p[2]}
	var sb sinkBuf
	in := c14Text[:180]
	var e1, e2 error
	if format == "lzma2W" {
		w, err := lzma.Writer2Config{DictCap: 4096, Properties: pr}.NewWriter2(&sb)
		if err != nil {
			return []byte("ctor:" + err.Error())
		}
		_, e1 = w.Write(in)
		e2 = w.Close()
	} else {
		w, err := lzma.WriterConfig{DictCap: 4096, Properties: pr}.NewWriter(&sb)
		if err != nil {
			return []byte("ctor:" + err.Error())
		}
		_, e1 = w.Write(in)
		e2 = w.Close()
	}
	return append([]byte(fmt.Sprintf("%v;%v;", e1, e2)), sb.b...)
}

// C14PropsMain is the child of the property matrix: `vcheck c14-props <format> <first|-> [only]`
// creates a writer with property set number `first` (if any), then one with every property set
// in order (or just set `only`), and prints one SHA-256 per set.
func C14PropsMain(args []string) int {
	if len(args) < 2 {
		return 2
	}
	sets := c14PropSets(args[0])
	if args[1] != "-" {
		var f int
		fmt.Sscan(args[1], &f)
		c14PropBody(args[0], sets[f])
	}
	if len(args) > 2 {
		var k int
		fmt.Sscan(args[2], &k)
		fmt.Printf("%x\n", sha256.Sum256(c14PropBody(args[0], sets[k])))
		return 0
	}
	for _, p := range sets {
		fmt.Printf("%x\n", sha256.Sum256(c14PropBody(args[0], p)))
	}
	return 0
}

// c14PropsMatrix: for both writer kinds with explicit properties and every property set A (75 for
// LZMA2, 225 for classic LZMA): a fresh process creates a writer with A and then writers with all
// property sets in order; every output must equal the output of a process that ran only that set.
// Anything keyed by less than (lc, lp, pb) - or by a wrong mixed-radix index of them - shows as a
// difference for the first colliding successor.
func c14PropsMatrix(r *core.Run) {
	self, err := os.Executable()
	if err != nil {
		r.CapHit("property matrix not run: " + err.Error())
		return
	}
	for _, format := range []string{"lzma2W", "lzmaW"} {
		sets := c14PropSets(format)
		n := len(sets)
		pristine := make([]string, n)
		r.Parallel(n, "property matrix: pristine outputs", func(k int) {
			out, _ := exec.Command(self, "c14-props", format, "-", fmt.Sprint(k)).Output()
			pristine[k] = strings.TrimSpace(string(out))
		})
		if r.Expired("property matrix") {
			// the worker pool skips what is left once the deadline has passed: nothing to judge
			return
		}
		for k := range pristine {
			if len(pristine[k]) != 64 {
				r.Violate(core.MkCase("C14", "props", map[string]interface{}{"Format": format, "First": -1, "Set": k}), "property matrix → writer fails in a fresh process", fmt.Sprintf("%s with properties %v alone", format, sets[k]), pristine[k], "a result")
				return
			}
		}
		step := 1
		if !thorough(r) && format == "lzmaW" {
			step = 3 // quick: every third first set for the 225 classic sets (the chain itself still visits all)
		}
		var firsts []int
		for f := -1; f < n; f += step {
			firsts = append(firsts, f)
		}
		r.Parallel(len(firsts), "property matrix: chains", func(i int) {
			f := firsts[i]
			fa := "-"
			if f >= 0 {
				fa = fmt.Sprint(f)
			}
			out, err := exec.Command(self, "c14-props", format, fa).Output()
			lines := strings.Fields(string(out))
			if err != nil || len(lines) != n {
				r.Violate(core.MkCase("C14", "props", map[string]interface{}{"Format": format, "First": f, "Set": -1}), "property matrix → chain fails", fmt.Sprintf("%s: first set %d then all sets", format, f), fmt.Sprint(err, len(lines)), "one result per set")
				return
			}
			for k := range lines {
				if lines[k] != pristine[k] {
					first := "none"
					if f >= 0 {
						first = fmt.Sprint(sets[f])
					}
					r.Violate(core.MkCase("C14", "props", map[string]interface{}{"Format": format, "First": f, "Set": k}), "property matrix → "+format+" output depends on the property sets used earlier in the process",
						fmt.Sprintf("fresh process: %s with properties %s, then with every property set in order; the output for %v", format, first, sets[k]), "differs from the output of a process that used only these properties", "deterministic function of configuration and input")
					break
				}
			}
			r.Eval(core.Hash("props", format, f, strings.Join(lines, "")))
			r.Nontrivial(core.Hash("props", format, f))
			r.Trace(1)
		})
		r.Extra("property_matrix_"+format, fmt.Sprintf("%d property sets, %d chains of %d writers", n, len(firsts), n+1))
	}
	r.State("property matrix")
	r.Trans("property matrix: every property set after every other one (lzma2W 75, lzmaW 225)")
}

func compressTrace(t []int) string {
	var b strings.Builder
	for i := 0; i < len(t); {
		j := i
		for j < len(t) && t[j] == t[i] {
			j++
		}
		fmt.Fprintf(&b, "T%dx%d ", t[i], j-i)
		i = j
	}
	return strings.TrimSpace(b.String())
}

// C14RaceMain is the body of the free-running pass (cmd/vrace, built with -race):
// the same bodies on real goroutines, started together, several rounds.
// c14ColdCombos: pairs of menu bodies (the menu is built without the library) that are started
// together as the very first library use of a fresh process: anything initialised lazily on first
// use is initialised by two goroutines at once.
func c14ColdCombos() [][2]int {
	return [][2]int{{0, 1}, {0, 0}, {5, 5}, {5, 14}, {12, 12}, {12, 13}, {10, 11}, {15, 15}, {16, 16}, {17, 17}, {15, 0}, {16, 10}, {2, 3}, {6, 7}, {8, 19}}
}

// C14ColdMain runs cold combination k: both bodies concurrently first, solo afterwards.
func C14ColdMain(k int) int {
	m := c14Menu()
	cb := c14ColdCombos()[k]
	res := make([][]byte, 2)
	start := make(chan struct{})
	done := make(chan int)
	for i := 0; i < 2; i++ {
		go func(i int) {
			<-start
			res[i] = m[cb[i]].run(func() {})
			done <- i
		}(i)
	}
	close(start)
	<-done
	<-done
	bad := 0
	for i := 0; i < 2; i++ {
		if !bytes.Equal(res[i], m[cb[i]].run(func() {})) {
			fmt.Printf("RESULT-DIFFERS cold combination %d (bodies %d and %d started together as the first library use of the process) thread=%d\n", k, cb[0], cb[1], i)
			bad++
		}
	}
	return bad
}

func C14RaceMain(rounds int) int {
	bad := 0
	for _, sc := range c14Scenarios() {
		solo := c14Solo(sc)
		for round := 0; round < rounds; round++ {
			res := make([][]byte, len(sc.bodies))
			start := make(chan struct{})
			done := make(chan int)
			for i, b := range sc.bodies {
				go func(i int, b c14Body) {
					<-start
					res[i] = b.run(func() {})
					done <- i
				}(i, b)
			}
			close(start)
			for range sc.bodies {
				<-done
			}
			for i := range res {
				if !bytes.Equal(res[i], solo[i]) {
					fmt.Printf("RESULT-DIFFERS scenario=%q thread=%d round=%d\n", sc.name, i, round)
					bad++
				}
			}
		}
	}
	// determinism: solo runs repeated at the end are byte-identical to the first ones
	for _, sc := range c14Scenarios() {
		a, b := c14Solo(sc), c14Solo(sc)
		for i := range a {
			if !bytes.Equal(a[i], b[i]) {
				fmt.Printf("NONDETERMINISTIC-OUTPUT scenario=%q thread=%d\n", sc.name, i)
				bad++
			}
		}
	}
	return bad
}

func runC14(r *core.Run) {
	bindRef(r)
	if err := sched.SelfTest(); err != nil {
		panic(err)
	}
	th := thorough(r)
	bound := 2
	if th {
		bound = 3
	}
	r.Rule = fmt.Sprintf("2-3 goroutine bodies, each driving its own xz/LZMA/LZMA2 writer or reader, under a cooperative scheduler; scheduling points: every public call boundary, every call-back into the harness' sink/source (one per sink write / source read, the decoders read byte by byte) and every sync/sync-atomic operation of the repository (routed through an overlay shim); DFS with iterative preemption bounding (bound %d); oracle: every thread's result equals its solo run, outputs decode with the reference, solo runs first and last are byte-identical; a history check: every ordered pair of a menu of 41 bodies (all writer kinds, check types, raw first chunks, readers) in a fresh process, the second result must equal its result in a pristine process; plus a separate free-running pass of the same bodies under the race detector with GOMAXPROCS 2/4/16. states = scenarios x preemption counts; non-trivial = distinct (scenario, schedule)", bound)
	if shimCalls != nil {
		r.Extra("sync_shim_overlay", "active")
	} else {
		r.Extra("sync_shim_overlay", "not active (plain build): scheduling points are call boundaries and sink/source call-backs only")
	}
	// the phases that run in fresh processes first (minutes), the schedule exploration last: when the
	// deadline cuts the run short it cuts the deepest preemption bound of the last scenarios only
	// history check: all ordered pairs of the body menu, each pair in a fresh process
	c14History(r)
	c14PropsMatrix(r)
	// free-running race pass
	rb := os.Getenv("VERIF_RACE_BIN")
	if rb == "" {
		r.CapHit("race pass not run (VERIF_RACE_BIN unset)")
	}
	for _, procs := range []string{"2", "4", "16"} {
		if rb == "" {
			break
		}
		cmd := exec.Command(rb)
		cmd.Env = append(os.Environ(), "GOMAXPROCS="+procs, "GORACE=halt_on_error=0")
		out, err := cmd.CombinedOutput()
		txt := string(out)
		races := strings.Count(txt, "WARNING: DATA RACE")
		r.Count("race_pass_runs", 1)
		if races > 0 || strings.Contains(txt, "RESULT-DIFFERS") || strings.Contains(txt, "NONDETERMINISTIC-OUTPUT") {
			site := "race pass → data race"
			if races == 0 {
				site = "race pass → result differs"
			}
			// name the first racing repository frame
			first := ""
			for _, l := range strings.Split(txt, "\n") {
				if strings.Contains(l, "github.com/ulikunitz/xz") {
					first = strings.TrimSpace(l)
					break
				}
			}
			r.Violate(core.MkCase("C14", "race", map[string]string{"GOMAXPROCS": procs}), site, "free-running bodies under -race, GOMAXPROCS="+procs, fmt.Sprintf("%d race reports; first frame: %s", races, first), "no data race, results equal solo runs")
		} else if err != nil {
			r.CapHit("race pass failed to run: " + err.Error() + " " + firstLine(txt))
		}
	}
	// cold starts: each combination in a fresh process (lazy initialisation on first use)
	for k := range c14ColdCombos() {
		if rb == "" {
			break
		}
		cmd := exec.Command(rb, "cold", fmt.Sprint(k))
		cmd.Env = append(os.Environ(), "GOMAXPROCS=4", "GORACE=halt_on_error=0")
		out, err := cmd.CombinedOutput()
		txt := string(out)
		races := strings.Count(txt, "WARNING: DATA RACE")
		r.Count("race_pass_cold_starts", 1)
		if races > 0 || strings.Contains(txt, "RESULT-DIFFERS") {
			first := ""
			for _, l := range strings.Split(txt, "\n") {
				if strings.Contains(l, "github.com/ulikunitz/xz") {
					first = strings.TrimSpace(l)
					break
				}
			}
			site := "race pass (cold start) → data race"
			if races == 0 {
				site = "race pass (cold start) → result differs"
			}
			r.Violate(core.MkCase("C14", "race", map[string]string{"cold": fmt.Sprint(k)}), site, fmt.Sprintf("fresh process: menu bodies %v started together as the first library use", c14ColdCombos()[k]), fmt.Sprintf("%d race reports; first frame: %s", races, first), "no data race, results equal solo runs")
		} else if err != nil {
			r.CapHit("cold-start race pass failed to run: " + err.Error() + " " + firstLine(txt))
		}
	}
	scns := c14Scenarios()
	var before int64
	if shimCalls != nil {
		before = shimCalls()
	}
	totalExec := int64(0)
	// iterative bounding across scenarios: the thorough tier first completes every scenario with the
	// quick tier's bound, then raises it; the deadline can only cut the higher bound short
	passes := []int{bound}
	if th {
		passes = []int{bound - 1, bound}
	}
	completed := 0
	for _, bound := range passes {
		allDone := true
		for si, sc := range scns {
			sc := sc
			solo := c14Solo(sc)
			// outputs must be decodable by the reference (writers) — determinism vs. the reference content
			for i, b := range sc.bodies {
				if strings.HasSuffix(b.kind, "W") {
					// the result is "<status>;...;" (3 / 2 / 4 fields for xzW / lzmaW / lzma2W) followed by the sink bytes
					nf := map[string]int{"xzW": 3, "lzmaW": 2, "lzma2W": 4}[b.kind]
					k := -1
					for f := 0; f < nf; f++ {
						k += 1 + bytes.IndexByte(solo[i][k+1:], ';')
					}
					stream := solo[i][k+1:]
					var err error
					switch b.kind {
					case "xzW":
						err = ref.DecodeXZ(stream, ref.XZOptions{}).Err
					case "lzmaW":
						err = ref.DecodeAlone(stream, false).Err
					case "lzma2W":
						err = ref.DecodeLZMA2(stream, 4096, false).Err
					}
					if err != nil {
						r.Violate(core.MkCase("C14", "schedule", C14Case{Scenario: sc.name}), "solo "+b.kind+" output invalid", sc.name, err.Error(), "valid stream")
					}
				}
			}
			bd := bound
			if len(sc.bodies) > 2 {
				bd = bound - 1
				r.Note(fmt.Sprintf("preemption bound %d for the 3-thread scenario (cost)", bd))
			}
			if strings.HasPrefix(sc.name, "sweep(") {
				bd = bound - 1
				r.Note(fmt.Sprintf("preemption bound %d for the error-path sweep scenario (about 200 scheduling points in one thread)", bd))
			}
			p := C14Case{Scenario: sc.name, Bound: bd}
			e := &core.Explorer{Ctx: r, Name: "C14 " + sc.name, Bound: bd, Workers: 1, Body: func(x *core.X) { c14Exec(r, sc, solo, p, x) },
				Stop: func() bool { return r.Expired("schedule exploration") }}
			e.Run()
			totalExec += e.Executions
			r.State(fmt.Sprintf("scenario %d", si))
			r.Trans(fmt.Sprintf("scenario %d: %d schedules, max depth %d", si, e.Executions, e.MaxDepth))
			if !e.Complete {
				allDone = false
				r.CapHit(fmt.Sprintf("schedule exploration of %s stopped by the deadline at bound %d", sc.name, bd))
			}
			// determinism: solo again after the concurrent runs
			again := c14Solo(sc)
			for i := range solo {
				if !bytes.Equal(solo[i], again[i]) {
					r.Violate(core.MkCase("C14", "schedule", C14Case{Scenario: sc.name}), "solo "+sc.bodies[i].kind+" output changed after other runs", sc.name, "bytes differ", "deterministic function of configuration and input")
				}
			}
		}
		if allDone {
			completed = bound
		}
	}
	r.Extra("schedules_explored", totalExec)
	r.Extra("preemption_bound_completed_for_all_scenarios", completed)
	if shimCalls != nil {
		r.Extra("sync_operations_hooked", shimCalls()-before)
	}
	r.Sample(map[string]interface{}{"scenario": scns[0].name, "schedule": "T0x3 T1x9 T0x12 T1x4 (thread x consecutive points)"})
	r.Assume("limit: preemption inside a library loop between two scheduling points and memory-model effects are outside the cooperative scheduler; unsynchronised accesses are covered by the separate -race pass")
}
