package props

import (
	"bufio"
	"bytes"
	"fmt"
	"io"
	"runtime/debug"
	"sync/atomic"

	"github.com/ulikunitz/xz"
	"github.com/ulikunitz/xz/lzma"

	"verif/core"
	"verif/ref"
)

// C18 — dictionary-size code: complete enumeration of all 2^32-1 capacities
// and all 256 code bytes against an independently computed table.

func init() {
	register(&Check{ID: "C18", Level: "exploration", Run: runC18})
	scenario("C18", "encode", func(r *core.Run, c core.Case) {
		var p struct{ N int64 }
		params(c, &p)
		c18Encode(r, p.N, c18Table())
	})
	scenario("C18", "decode", func(r *core.Run, c core.Case) {
		var p struct{ Code int }
		params(c, &p)
		c18Decode(r, p.Code, c18Table())
	})
	scenario("C18", "readerbyte", func(r *core.Run, c core.Case) {
		var p struct{ Byte int }
		params(c, &p)
		c18ReaderByte(r, p.Byte)
	})
	scenario("C18", "headercfg", func(r *core.Run, c core.Case) {
		var p C18Cfg
		params(c, &p)
		c18HeaderCfg(r, p, c18Table())
	})
	scenario("C18", "header", func(r *core.Run, c core.Case) {
		var p struct{ DictCap, Pre, Hist int }
		params(c, &p)
		c18HeaderHist(r, p.DictCap, p.Pre, p.Hist, c18Table())
	})
}

// c18Table is the specification: sizes representable by codes 0..40.
func c18Table() [41]int64 {
	var t [41]int64
	for c := 0; c < 40; c++ {
		t[c] = int64(2|c&1) << uint(c/2+11)
	}
	t[40] = 1<<32 - 1
	return t
}

func c18Want(n int64, t [41]int64) int {
	for c := 0; c <= 40; c++ {
		if t[c] >= n {
			return c
		}
	}
	return 40
}

func c18Encode(r *core.Run, n int64, t [41]int64) {
	var got byte
	if p := core.Guard(func() { got = lzma.EncodeDictCap(n) }); p != nil {
		r.Violate(core.MkCase("C18", "encode", map[string]int64{"N": n}), "encode panic", p.Value, p.Stack, "no panic")
		return
	}
	want := c18Want(n, t)
	if int(got) != want {
		sig := "encode not-least"
		if int(got) > 40 || t[min(int(got), 40)] < n {
			sig = "encode too-small"
		}
		r.Violate(core.MkCase("C18", "encode", map[string]int64{"N": n}), sig,
			fmt.Sprintf("EncodeDictCap(%d)", n), fmt.Sprintf("code %d (size %d)", got, t[min(int(got), 40)]), fmt.Sprintf("code %d (size %d)", want, t[want]))
	}
}

func c18Decode(r *core.Run, code int, t [41]int64) {
	var n int64
	var err error
	cs := core.MkCase("C18", "decode", map[string]int{"Code": code})
	if p := core.Guard(func() { n, err = lzma.DecodeDictCap(byte(code)) }); p != nil {
		r.Violate(cs, "decode panic", p.Value, p.Stack, "no panic")
		return
	}
	if code <= 40 {
		if err != nil || n != t[code] {
			r.Violate(cs, "decode wrong-size", fmt.Sprintf("DecodeDictCap(%d)", code), fmt.Sprintf("%d, %v", n, err), fmt.Sprint(t[code]))
		}
		rs, ok := ref.DictSizeFromCode(byte(code))
		if !ok || int64(rs) != t[code] {
			panic("reference dictionary table disagrees with the specification table")
		}
	} else if err == nil {
		r.Violate(cs, "decode accepts-invalid-code", fmt.Sprintf("DecodeDictCap(%d)", code), fmt.Sprintf("%d, nil", n), "an error")
	}
	r.Eval(core.Hash("dec", n, err == nil))
	r.Nontrivial(core.Hash("dec", n, err == nil))
}

// c18Header writes an (empty) xz stream with the given DictCap and checks the
// dictionary byte of the emitted block header.
func c18Header(r *core.Run, dictCap int, t [41]int64) { c18HeaderHist(r, dictCap, 0, 0, t) }

// c18HeaderHist: the writer is created from a configuration variable with a history. hist 1: the
// variable held capacity pre when Verify was called on it (Verify fills in defaults in place),
// then DictCap was set to dictCap; hist 2: a first writer was created (and used) from the variable
// with capacity pre, then DictCap was set to dictCap and a second writer created. The header of
// the writer created last must carry the code of dictCap.
func c18HeaderHist(r *core.Run, dictCap, pre, hist int, t [41]int64) {
	cs := core.MkCase("C18", "header", map[string]int{"DictCap": dictCap, "Pre": pre, "Hist": hist})
	var sink sinkBuf
	var err error
	p := core.Guard(func() {
		var w *xz.Writer
		cfg := xz.WriterConfig{DictCap: dictCap}
		switch hist {
		case 1:
			cfg.DictCap = pre
			if err = cfg.Verify(); err != nil {
				return
			}
			cfg.DictCap = dictCap
		case 2:
			cfg.DictCap = pre
			var first sinkBuf
			w0, e0 := cfg.NewWriter(&first)
			if e0 != nil {
				err = e0
				return
			}
			w0.Write([]byte("first"))
			w0.Close()
			cfg.DictCap = dictCap
		case 3:
			// the configuration is taken from a writer that has already written a block (the
			// Writer embeds its WriterConfig), changed, and used for a new writer
			cfg.DictCap = pre
			var first sinkBuf
			w0, e0 := cfg.NewWriter(&first)
			if e0 != nil {
				err = e0
				return
			}
			w0.Write([]byte("first"))
			w0.Close()
			cfg = w0.WriterConfig
			cfg.DictCap = dictCap
		}
		// hist 11 / 12 / 13: no configuration history, but another kind of sink: an io.ByteWriter, a
		// *bytes.Buffer, a *bufio.Writer (what gxz passes; flushed by the caller after Close)
		var sinkW io.Writer = &sink
		var bb bytes.Buffer
		var bw *bufio.Writer
		switch hist {
		case 11:
			sinkW = &sinkByteBuf{}
		case 12:
			sinkW = &bb
		case 13:
			bw = bufio.NewWriter(&sink)
			sinkW = bw
		}
		w, err = cfg.NewWriter(sinkW)
		if err == nil {
			_, err = w.Write([]byte("x"))
			if err == nil {
				err = w.Close()
			}
		}
		switch hist {
		case 11:
			sink.b = sinkW.(*sinkByteBuf).b
		case 12:
			sink.b = bb.Bytes()
		case 13:
			bw.Flush()
		}
	})
	if p != nil {
		r.Violate(cs, "header panic", p.Value, p.Stack, "no panic")
		return
	}
	if err != nil {
		r.Violate(cs, "header writer-error", fmt.Sprintf("DictCap=%d", dictCap), err.Error(), "nil")
		return
	}
	x := ref.DecodeXZ(sink.b, ref.XZOptions{})
	if x.Err != nil || len(x.Streams) != 1 || len(x.Streams[0].Blocks) != 1 {
		r.Violate(cs, "header unparsable", fmt.Sprintf("DictCap=%d", dictCap), fmt.Sprint(x.Err), "valid stream")
		return
	}
	code := int(x.Streams[0].Blocks[0].DictCode)
	want := c18Want(int64(dictCap), t)
	if code != want {
		sig, d := "header wrong-dict-code", fmt.Sprintf("DictCap=%d", dictCap)
		if hist > 10 {
			sig += " (sink kind)"
			d += ", sink: " + map[int]string{11: "io.ByteWriter", 12: "*bytes.Buffer", 13: "*bufio.Writer"}[hist]
		} else if hist > 0 {
			sig += " (configuration variable reused)"
			d = fmt.Sprintf("configuration variable: DictCap=%d, %s, then DictCap=%d, NewWriter", pre, map[int]string{1: "Verify()", 2: "NewWriter + Write + Close", 3: "NewWriter + Write + Close, configuration copied back from that writer"}[hist], dictCap)
		}
		r.Violate(cs, sig, d, fmt.Sprintf("code %d", code), fmt.Sprintf("code %d", want))
	}
	r.Eval(core.Hash("hdr", code))
	r.Nontrivial(core.Hash("hdr", code))
}

// c18HeaderCfg: the code in EVERY block header must be the one for the configured capacity whatever
// the other configuration fields are (match finder, block size below the capacity, look-ahead size
// above it, check type, properties): they must not leak into the declared dictionary size.
func c18HeaderCfg(r *core.Run, p C18Cfg, t [41]int64) {
	cs := core.MkCase("C18", "headercfg", p)
	cfg := xz.WriterConfig{DictCap: p.DictCap, BufSize: p.BufSize, BlockSize: int64(p.BlockSize), Matcher: lzma.MatchAlgorithm(p.Matcher), CheckSum: byte(p.Check)}
	if p.LP > 0 {
		cfg.Properties = &lzma.Properties{LC: 1, LP: p.LP, PB: 0}
	}
	if cfg.Verify() != nil {
		r.Count("headercfg_rejected_by_Verify", 1)
		return
	}
	var sink sinkBuf
	var err error
	pan := core.Guard(func() {
		var w *xz.Writer
		w, err = xz.WriterConfig{DictCap: p.DictCap, BufSize: p.BufSize, BlockSize: int64(p.BlockSize), Matcher: lzma.MatchAlgorithm(p.Matcher), CheckSum: byte(p.Check), Properties: cfg.Properties}.NewWriter(&sink)
		if err == nil {
			_, err = w.Write(textBytes(91, 9000))
			if err == nil {
				err = w.Close()
			}
		}
	})
	desc := fmt.Sprintf("%+v", p)
	if pan != nil || err != nil {
		r.Violate(cs, "header writer-fails (configuration product)", desc, fmt.Sprint(pan, err), "a stream")
		return
	}
	x := ref.DecodeXZ(sink.b, ref.XZOptions{})
	if x.Err != nil || len(x.Streams) != 1 || len(x.Streams[0].Blocks) == 0 {
		r.Violate(cs, "header unparsable (configuration product)", desc, fmt.Sprint(x.Err), "valid stream")
		return
	}
	dc := p.DictCap
	if dc == 0 {
		dc = 8 << 20
	}
	want := c18Want(int64(dc), t)
	for i, b := range x.Streams[0].Blocks {
		if int(b.DictCode) != want {
			r.Violate(cs, "header wrong-dict-code (depends on another configuration field)", desc, fmt.Sprintf("block %d: code %d", i, b.DictCode), fmt.Sprintf("code %d", want))
			break
		}
	}
	r.Eval(core.Hash("hdrcfg", desc, len(x.Streams[0].Blocks)))
	r.Nontrivial(core.Hash("hdrcfg", want, p.Matcher, p.BlockSize > 0, p.BufSize))
}

// C18Cfg is one point of the configuration product of c18HeaderCfg.
type C18Cfg struct{ DictCap, BufSize, BlockSize, Matcher, Check, LP int }

type sinkBuf struct{ b []byte }

func (s *sinkBuf) Write(p []byte) (int, error) { s.b = append(s.b, p...); return len(p), nil }

// c18ReaderByte: a real .xz stream whose block header carries dictionary byte b (header CRC
// re-sealed) is given to the xz reader: accepted iff b <= 40. Codes 29..40 make the reader
// allocate 96 MiB .. 4 GiB of address space; the pages are never touched (measured: 12 MB
// resident, milliseconds), and the 256 probes run one after the other with the memory returned
// after each large one.
func c18ReaderByte(r *core.Run, b int) {
	if b > 28 && b <= 40 {
		defer debug.FreeOSMemory()
		r.Count("reader_codes_with_large_dictionary", 1)
	}
	cs := core.MkCase("C18", "readerbyte", map[string]int{"Byte": b})
	plain := []byte("dictionary size byte probe")
	lz := ref.EncodeLZMA2Simple(plain, ref.Props{LC: 3, LP: 0, PB: 2}, 100)
	data := ref.EncodeXZStream(ref.CheckCRC32, []ref.XZBlockSpec{{LZMA2: lz, Plain: plain, DictCode: byte(b)}})
	out, err, _, pan := xzDecode(data, 4096, false)
	switch {
	case pan != nil:
		r.Violate(cs, "reader panic on dictionary byte", fmt.Sprintf("block header dictionary byte %#02x", b), pan.Value, "accept (<=40) or reject")
	case b <= 40 && (errClass(err) != "EOF" || string(out) != string(plain)):
		r.Violate(cs, "reader rejects valid dictionary byte", fmt.Sprintf("block header dictionary byte %d", b), errStr(err), "decodes")
	case b > 40 && (err == nil || errClass(err) == "EOF"):
		r.Violate(cs, "reader accepts invalid dictionary byte", fmt.Sprintf("block header dictionary byte %#02x (header CRC re-sealed)", b), fmt.Sprintf("%d bytes, %s", len(out), errStr(err)), "an error: only codes 0..40 are valid")
	}
	r.Eval(core.Hash("rdbyte", b <= 40, errClass(err)))
	r.Nontrivial(core.Hash("rdbyte", b <= 40, errClass(err)))
}

func runC18(r *core.Run) {
	t := c18Table()
	r.Rule = "complete enumeration: EncodeDictCap(n) for every n in 1..2^32-1 (sharded ranges), DecodeDictCap(c) for every byte c, plus the dictionary byte of real block headers for DictCap at every code boundary (-1,0,+1) and at every m*2^k (m=5..15) up to 64 MiB; the xz reader on a real stream with each of the 256 dictionary bytes; non-trivial = distinct (result) classes: one per code interval hit / per decode result"
	for c := 0; c < 40; c++ {
		if t[c] >= t[c+1] {
			panic("specification table not strictly increasing")
		}
	}
	// all 256 code bytes
	for c := 0; c < 256; c++ {
		c18Decode(r, c, t)
	}
	for c := 0; c < 256; c++ {
		c18ReaderByte(r, c)
	}
	r.Sample(map[string]interface{}{"DecodeDictCap": []int{0, 40, 41, 255}})
	// all capacities, sharded
	const total = int64(1)<<32 - 1
	shards := 4096
	per := (total + int64(shards) - 1) / int64(shards)
	var done int64
	var seen [41]int64
	r.Parallel(shards, "EncodeDictCap ranges", func(i int) {
		lo := 1 + int64(i)*per
		hi := lo + per
		if hi > total+1 {
			hi = total + 1
		}
		// expected code is monotone: walk the table alongside
		want := c18Want(lo, t)
		var local [41]int64
		for n := lo; n < hi; n++ {
			for t[want] < n {
				want++
			}
			got := lzma.EncodeDictCap(n)
			if int(got) != want {
				c18Encode(r, n, t) // records the violation with full detail
				if r.Violations() > 0 {
					break
				}
			}
			local[want]++
		}
		for c, v := range local {
			atomic.AddInt64(&seen[c], v)
		}
		atomic.AddInt64(&done, hi-lo)
	})
	for c, v := range seen {
		if v > 0 {
			r.Nontrivial(core.Hash("enc", c))
			r.Eval(core.Hash("enc", c))
		}
	}
	r.Count("capacities_checked", done)
	r.AddEvals(done)
	r.Count("codes_checked", 256)
	r.Sample(map[string]interface{}{"EncodeDictCap": "n=1..4294967295, e.g. n=4096→0, 4097→1, 6144→1, 6145→2, 4294967295→40"})
	// real block headers
	var caps []int
	for c := 0; c <= 26; c++ { // up to 64 MiB
		for _, d := range []int64{-1, 0, 1} {
			n := t[c] + d
			if n >= 4096 && n <= 64<<20 {
				caps = append(caps, int(n))
			}
		}
	}
	// capacities in the middle of the code intervals: every n = m * 2^k with m in 5..15 (the
	// codes themselves are m = 4, 6, 8, 12)
	for k := uint(9); k <= 24; k++ {
		for m := 5; m <= 15; m++ {
			if n := m << k; n >= 4096 && n <= 64<<20 && m != 6 && m != 8 && m != 12 {
				caps = append(caps, n)
			}
		}
	}
	if !thorough(r) {
		// quick: boundaries up to 8 MiB (each writer allocates its dictionary)
		var q []int
		for _, n := range caps {
			if n <= 8<<20+1 {
				q = append(q, n)
			}
		}
		caps = q
	}
	old := r.Workers
	if r.Workers > 4 {
		r.Workers = 4 // memory: each writer allocates DictCap + hash table
	}
	r.Parallel(len(caps), "block header dictionary byte", func(i int) { c18Header(r, caps[i], t) })
	r.Parallel(len(caps)*3, "block header dictionary byte, other kinds of sink", func(i int) { c18HeaderHist(r, caps[i/3], 0, 11+i%3, t) })
	// configuration product: capacity x match finder x block size x look-ahead size x check x lp
	var pc []C18Cfg
	for _, dc := range []int{4096, 6144, 65536, 1 << 20, 0} {
		for m := 0; m < 2; m++ {
			for _, bs := range []int{0, 1000, 4096, 8192, 100000} {
				for _, buf := range []int{0, 273, 8192, 70000} {
					for _, ck := range []int{0, 1, 10} {
						if m == 1 && dc == 0 {
							continue // BinaryTree with the 8 MiB default: allocation cost
						}
						pc = append(pc, C18Cfg{DictCap: dc, BufSize: buf, BlockSize: bs, Matcher: m, Check: ck, LP: (bs / 1000) % 3})
					}
				}
			}
		}
	}
	r.Parallel(len(pc), "block header dictionary byte over the configuration product", func(i int) { c18HeaderCfg(r, pc[i], t) })
	r.Count("headers_checked_configuration_product", int64(len(pc)))
	// configuration histories: all ordered pairs of a capacity menu x {Verify, earlier writer}
	hm := []int{4096, 4097, 6144, 65536, 1 << 20, 1<<20 + 1, 3 << 20, 8 << 20}
	type hc struct{ pre, dc, hist int }
	var hcs []hc
	for _, a := range hm {
		for _, b := range hm {
			if a != b {
				hcs = append(hcs, hc{a, b, 1}, hc{a, b, 2}, hc{a, b, 3})
			}
		}
	}
	r.Parallel(len(hcs), "block header dictionary byte after a configuration history", func(i int) { c18HeaderHist(r, hcs[i].dc, hcs[i].pre, hcs[i].hist, t) })
	r.Count("headers_checked_after_config_history", int64(len(hcs)))
	r.Workers = old
	r.Count("headers_checked", int64(len(caps)))
	r.Sample(map[string]interface{}{"header DictCap": caps[:6]})
	r.Extra("evaluations_total", done+256+int64(len(caps)))
	r.Assume("trusted: Go toolchain; the specification table (2|c&1)<<(c/2+11), code 40 = 2^32-1, from the .xz format 1.0.4 section 5.3.1")
}
