package props

import (
	"bytes"
	"errors"
	"fmt"
	"io"
	"strings"

	"github.com/ulikunitz/xz"
	"github.com/ulikunitz/xz/lzma"

	"verif/core"
	"verif/ref"
)

// ---------- alphabets ----------

// sigma3 returns all strings over {0x00,'a','b'} of length 0..n, shortest first.
func sigma3(n int) [][]byte {
	alpha := []byte{0, 'a', 'b'}
	out := [][]byte{{}}
	prev := [][]byte{{}}
	for l := 1; l <= n; l++ {
		var cur [][]byte
		for _, p := range prev {
			for _, a := range alpha {
				s := append(append([]byte(nil), p...), a)
				cur = append(cur, s)
			}
		}
		out = append(out, cur...)
		prev = cur
	}
	return out
}

var tailT = bytes.Repeat([]byte("abcdefgh"), 40)

// Seg is one segment of the shape grammar.
type Seg struct {
	K    string `json:"k"` // Z zero run, A run of byte B, R incompressible, T low-entropy text, N incompressible with planted repeats, P recurring long phrases, K copy of the first n bytes so far, L literal bytes
	N    int    `json:"n,omitempty"`
	Seed int    `json:"s,omitempty"`
	B    byte   `json:"b,omitempty"`
	Lit  []byte `json:"lit,omitempty"`
}

func (s Seg) String() string {
	switch s.K {
	case "A":
		return fmt.Sprintf("A(%#02x,%d)", s.B, s.N)
	case "R", "T", "N", "P":
		return fmt.Sprintf("%s(s%d,%d)", s.K, s.Seed, s.N)
	case "L":
		return fmt.Sprintf("L(%x)", s.Lit)
	}
	return fmt.Sprintf("%s(%d)", s.K, s.N)
}

func shapeString(ss []Seg) string {
	var p []string
	for _, s := range ss {
		p = append(p, s.String())
	}
	return strings.Join(p, "+")
}

type xorshift uint64

func (x *xorshift) next() uint64 {
	v := uint64(*x)
	v ^= v << 13
	v ^= v >> 7
	v ^= v << 17
	*x = xorshift(v)
	return v
}

// randBytes is the fixed incompressible generator (a constant of the alphabet).
func randBytes(seed, n int) []byte {
	x := xorshift(0x9E3779B97F4A7C15 ^ uint64(seed+1)*0xD1B54A32D192ED03)
	b := make([]byte, n)
	for i := 0; i < n; i += 8 {
		v := x.next()
		for j := 0; j < 8 && i+j < n; j++ {
			b[i+j] = byte(v >> (8 * uint(j)))
		}
	}
	return b
}

// noiseBytes is incompressible data with a few planted repeats (about ten per 64 KiB, together
// well below the ~900 bytes an LZMA-coded incompressible chunk loses against its raw form): a writer
// that tries to compress such a chunk codes matches of every length class (2..273), near and far
// distances, repeated distances (rep0..rep3, short rep) - and then stores the chunk raw and has to
// forget all of that.
func noiseBytes(seed, n int) []byte {
	b := randBytes(seed+1000, n)
	lens := []int{4, 9, 20, 60, 120, 18, 30, 5, 64, 100, 273, 2}
	dists := []int{1, 5, 100, 1500, 3000, 100, 100, 40000, 7, 3000, 2, 1500}
	pos, k := 3500, 0
	for pos+600 < n {
		l, d := lens[k%len(lens)], dists[k%len(dists)]
		if d > pos {
			d = pos
		}
		for i := 0; i < l; i++ {
			b[pos+i] = b[pos+i-d]
		}
		// a literal, then the same distance again (rep0) and a single byte at that distance (short rep)
		q := pos + l + 1
		for i := 0; i < 3; i++ {
			b[q+i] = b[q+i-d]
		}
		b[q+5] = b[q+5-d]
		pos += 5300 + 97*(k%7)
		k++
	}
	return b
}

// phraseBytes is highly compressible data made of long phrases (30..300 bytes) that recur: matches
// of the long length class (18..273), rep matches after one-byte edits, far and near distances.
func phraseBytes(seed, n int) []byte {
	x := xorshift(0xC2B2AE3D27D4EB4F ^ uint64(seed+3)*0x9E3779B97F4A7C15)
	var book [][]byte
	for i := 0; i < 8; i++ {
		book = append(book, textBytes(seed*8+i, 30+int(x.next()%270)))
	}
	b := make([]byte, 0, n+400)
	for len(b) < n {
		v := x.next()
		ph := book[v%8]
		b = append(b, ph...)
		if v>>8&3 == 0 {
			// the same phrase again with one byte changed in the middle: match, literal, rep0
			c := append([]byte(nil), ph...)
			c[len(c)/2] ^= 0x20
			b = append(b, c...)
		}
		b = append(b, byte('0'+(v>>16)%10))
	}
	return b[:n]
}

// textBytes is the fixed low-entropy source: words from a small vocabulary.
func textBytes(seed, n int) []byte {
	words := []string{"the ", "of ", "lzma ", "xz ", "dictionary ", "match ", "literal ", "and ", "range ", "coder ", "a ", "to ", "\n", "0123 ", "chunk "}
	x := xorshift(0xA0761D6478BD642F ^ uint64(seed+7)*0xE7037ED1A0B428DB)
	b := make([]byte, 0, n+16)
	for len(b) < n {
		v := x.next()
		b = append(b, words[v%uint64(len(words))]...)
		if v>>60 == 0 {
			b = append(b, byte('A'+(v>>8)%26))
		}
	}
	return b[:n]
}

func buildShape(ss []Seg) []byte {
	var b []byte
	for _, s := range ss {
		switch s.K {
		case "Z":
			b = append(b, make([]byte, s.N)...)
		case "A":
			b = append(b, bytes.Repeat([]byte{s.B}, s.N)...)
		case "R":
			b = append(b, randBytes(s.Seed, s.N)...)
		case "T":
			b = append(b, textBytes(s.Seed, s.N)...)
		case "N":
			b = append(b, noiseBytes(s.Seed, s.N)...)
		case "P":
			b = append(b, phraseBytes(s.Seed, s.N)...)
		case "K":
			n := s.N
			if n > len(b) {
				n = len(b)
			}
			b = append(b, b[:n]...)
		case "L":
			b = append(b, s.Lit...)
		}
	}
	return b
}

// ---------- configurations ----------

// XZCfg is the serialisable form of xz.WriterConfig.
type XZCfg struct {
	LC, LP, PB int
	Props      bool // false: leave Properties nil (library default)
	DictCap    int
	BufSize    int
	BlockSize  int64
	Check      byte
	NoCheck    bool
	Matcher    int
	// Pre (configuration history): a WriterConfig value is first filled with Pre and verified
	// (Verify fills in defaults in place), then every field is overwritten with this
	// configuration's values and the writer is created from that same variable
	Pre *XZCfg `json:",omitempty"`
	// PreUsed: instead of Verify, a writer is created from the Pre configuration and used, and the
	// configuration is copied back from that writer (Writer embeds WriterConfig) before it is changed
	PreUsed bool `json:",omitempty"`
	// Scribble: right after the constructor has returned, the caller overwrites every field of its
	// configuration variable, including the Properties value behind the pointer, and creates and
	// uses a second, unrelated writer from it
	Scribble bool `json:",omitempty"`
}

// open creates the writer the way the case's configuration history prescribes.
func (c XZCfg) open(sink io.Writer) (*xz.Writer, error) {
	cfg := c.build()
	w, err := cfg.NewWriter(sink)
	if c.Scribble {
		if cfg.Properties != nil {
			if *cfg.Properties == (lzma.Properties{}) {
				*cfg.Properties = lzma.Properties{LC: 1, LP: 1, PB: 1}
			} else {
				*cfg.Properties = lzma.Properties{}
			}
		} else {
			cfg.Properties = &lzma.Properties{LC: 0, LP: 2, PB: 0}
		}
		cfg.DictCap, cfg.BufSize, cfg.Matcher = 5000, 300, 1-cfg.Matcher
		cfg.BlockSize, cfg.NoCheckSum = 77, false
		if cfg.CheckSum == xz.SHA256 {
			cfg.CheckSum = xz.CRC32
		} else {
			cfg.CheckSum = xz.SHA256
		}
		var other sinkBuf
		if w2, e2 := cfg.NewWriter(&other); e2 == nil {
			w2.Write(bytes.Repeat([]byte("another writer created from the same configuration variable. "), 4))
			w2.Close()
		}
	}
	return w, err
}

// build returns the xz.WriterConfig the way the case's configuration history produces it.
func (c XZCfg) build() xz.WriterConfig {
	if c.Pre == nil {
		return c.cfg()
	}
	w := c.Pre.cfg()
	if c.PreUsed {
		var sb sinkBuf
		if w0, err := w.NewWriter(&sb); err == nil {
			w0.Write([]byte("an earlier stream written with the first configuration"))
			w0.Close()
			w = w0.WriterConfig
		}
	} else {
		_ = w.Verify()
	}
	f := c.cfg()
	w.Properties, w.DictCap, w.BufSize, w.BlockSize = f.Properties, f.DictCap, f.BufSize, f.BlockSize
	w.CheckSum, w.NoCheckSum, w.Matcher = f.CheckSum, f.NoCheckSum, f.Matcher
	return w
}

func (c XZCfg) String() string {
	if c.Pre != nil {
		q := c
		q.Pre = nil
		if c.PreUsed {
			return "taken from a used writer of " + c.Pre.String() + " then set to " + q.String()
		}
		return "verified " + c.Pre.String() + " then set to " + q.String()
	}
	m := "HT4"
	if c.Matcher == 1 {
		m = "BT"
	}
	p := "default"
	if c.Props {
		p = fmt.Sprintf("lc%dlp%dpb%d", c.LC, c.LP, c.PB)
	}
	return fmt.Sprintf("{%s dict=%d buf=%d block=%d check=%d nocheck=%v %s}", p, c.DictCap, c.BufSize, c.BlockSize, c.Check, c.NoCheck, m)
}

func (c XZCfg) cfg() xz.WriterConfig {
	w := xz.WriterConfig{DictCap: c.DictCap, BufSize: c.BufSize, BlockSize: c.BlockSize, CheckSum: c.Check, NoCheckSum: c.NoCheck, Matcher: lzma.MatchAlgorithm(c.Matcher)}
	if c.Props {
		w.Properties = &lzma.Properties{LC: c.LC, LP: c.LP, PB: c.PB}
	}
	return w
}

// allProps2 lists the 75 LZMA2 property sets (lc+lp<=4).
func allProps2() [][3]int {
	var out [][3]int
	for lc := 0; lc <= 4; lc++ {
		for lp := 0; lp+lc <= 4; lp++ {
			for pb := 0; pb <= 4; pb++ {
				out = append(out, [3]int{lc, lp, pb})
			}
		}
	}
	return out
}

func matcherName(m int) string {
	if m == 1 {
		return "BinaryTree"
	}
	return "HashTable4"
}

// ---------- error classes ----------

func errClass(err error) string {
	switch {
	case err == nil:
		return "nil"
	case err == io.EOF:
		return "EOF"
	case errors.Is(err, io.ErrUnexpectedEOF):
		return "ErrUnexpectedEOF"
	}
	return "error"
}

func errStr(err error) string {
	if err == nil {
		return "nil"
	}
	return err.Error()
}

// ---------- library drivers ----------

// readAll drains rd with the given caller buffer size; it returns the bytes,
// the final error (nil is never final: reading continues) and protocol
// violations (n>len(p), too many (0,nil)).
func readAll(rd io.Reader, bufSize int, limit int) (out []byte, err error, proto string) {
	buf := make([]byte, bufSize)
	zero := 0
	for {
		n, e := rd.Read(buf)
		if n > len(buf) || n < 0 {
			return out, e, fmt.Sprintf("Read returned n=%d for a buffer of %d", n, len(buf))
		}
		out = append(out, buf[:n]...)
		if e != nil {
			return out, e, ""
		}
		if n == 0 {
			zero++
			if zero > 64 {
				return out, nil, "more than 64 consecutive (0,nil) results"
			}
		} else {
			zero = 0
		}
		if len(out) > limit {
			return out, nil, "output-cap"
		}
	}
}

// xzDecode opens and drains an xz stream with the library reader.
func xzDecode(data []byte, dictCap int, single bool) (out []byte, err error, proto string, pan *core.PanicInfo) {
	pan = core.Guard(func() {
		var rd *xz.Reader
		rd, err = xz.ReaderConfig{DictCap: dictCap, SingleStream: single}.NewReader(bytes.NewReader(data))
		if err != nil {
			return
		}
		out, err, proto = readAll(rd, 4096, 256<<20)
	})
	return
}

func lzma2Decode(data []byte, dictCap int) (out []byte, err error, proto string, pan *core.PanicInfo) {
	pan = core.Guard(func() {
		var rd *lzma.Reader2
		rd, err = lzma.Reader2Config{DictCap: dictCap}.NewReader2(bytes.NewReader(data))
		if err != nil {
			return
		}
		out, err, proto = readAll(rd, 4096, 256<<20)
	})
	return
}

func lzmaDecode(data []byte, dictCap int) (out []byte, err error, proto string, pan *core.PanicInfo) {
	pan = core.Guard(func() {
		var rd *lzma.Reader
		rd, err = lzma.ReaderConfig{DictCap: dictCap}.NewReader(bytes.NewReader(data))
		if err != nil {
			return
		}
		out, err, proto = readAll(rd, 4096, 256<<20)
	})
	return
}

// short renders bytes for messages.
func short(b []byte) string {
	if len(b) <= 24 {
		return fmt.Sprintf("%x", b)
	}
	return fmt.Sprintf("%x…(%d bytes)", b[:24], len(b))
}

func firstDiff(a, b []byte) int {
	n := len(a)
	if len(b) < n {
		n = len(b)
	}
	for i := 0; i < n; i++ {
		if a[i] != b[i] {
			return i
		}
	}
	if len(a) != len(b) {
		return n
	}
	return -1
}

// ---------- reference binding ----------

var corpusCache []ref.CorpusEntry

// bindRef validates the reference model (frozen corpus + self round trip) and
// records the counts; a failure is a harness error, never a verdict.
func bindRef(r *core.Run) []ref.CorpusEntry {
	if corpusCache == nil {
		es, err := ref.LoadCorpus(core.Root + "/corpus")
		if err != nil {
			fmt.Println("REFERENCE MODEL ERROR:", err)
			panic(err)
		}
		corpusCache = es
		ops := []ref.Op{{Kind: ref.OpLit, Byte: 'a'}, {Kind: ref.OpLit, Byte: 'b'}, {Kind: ref.OpMatch, Len: 5, Dist: 2}, {Kind: ref.OpShortRep}, {Kind: ref.OpLit},
			{Kind: ref.OpMatch, Len: 273, Dist: 1}, {Kind: ref.OpRep1, Len: 3}, {Kind: ref.OpRep2, Len: 2}, {Kind: ref.OpRep3, Len: 9}, {Kind: ref.OpRep0, Len: 18}, {Kind: ref.OpLit, Byte: 0xff}}
		for c := 0; c < 225; c++ {
			p, _ := ref.PropsFromCode(byte(c))
			if err := ref.SelfRoundTrip(p, ops); err != nil {
				panic(fmt.Sprintf("REFERENCE MODEL ERROR: self round trip props %v: %v", p, err))
			}
		}
	}
	if r != nil {
		r.Extra("reference_corpus_files_decoded", len(corpusCache))
		r.Extra("reference_self_roundtrips", 225*3)
	}
	return corpusCache
}
