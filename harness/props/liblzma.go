package props

import (
	"bufio"
	"crypto/sha256"
	"encoding/binary"
	"io"
	"os/exec"
	"sync"

	"verif/core"
)

// liblzma is the optional live second opinion (python's lzma module). Its
// absence is recorded and never an error; no verdict depends on it alone.
type liblzmaProc struct {
	mu  sync.Mutex
	cmd *exec.Cmd
	in  io.WriteCloser
	out *bufio.Reader
}

var (
	lzOnce  sync.Once
	lzProcs []*liblzmaProc
	lzNext  int
	lzMu    sync.Mutex
)

func liblzmaStart() {
	lzOnce.Do(func() {
		py, err := exec.LookPath("python3")
		if err != nil {
			return
		}
		if exec.Command(py, "-c", "import lzma").Run() != nil {
			return
		}
		for i := 0; i < 8; i++ {
			c := exec.Command(py, core.Root+"/tools/lzjudge.py")
			in, e1 := c.StdinPipe()
			out, e2 := c.StdoutPipe()
			if e1 != nil || e2 != nil || c.Start() != nil {
				continue
			}
			lzProcs = append(lzProcs, &liblzmaProc{cmd: c, in: in, out: bufio.NewReader(out)})
		}
	})
}

// liblzmaAvailable reports whether the helper runs.
func liblzmaAvailable() bool { liblzmaStart(); return len(lzProcs) > 0 }

// liblzmaJudge returns status ('K','E','T','U'), output length and SHA-256; ok=false
// when the helper is not available or died.
func liblzmaJudge(kind byte, dict uint32, data []byte) (status byte, n int, sum [32]byte, ok bool) {
	liblzmaStart()
	if len(lzProcs) == 0 {
		return 0, 0, sum, false
	}
	lzMu.Lock()
	p := lzProcs[lzNext%len(lzProcs)]
	lzNext++
	lzMu.Unlock()
	p.mu.Lock()
	defer p.mu.Unlock()
	var h [9]byte
	h[0] = kind
	binary.LittleEndian.PutUint32(h[1:], dict)
	binary.LittleEndian.PutUint32(h[5:], uint32(len(data)))
	if _, err := p.in.Write(append(h[:], data...)); err != nil {
		return 0, 0, sum, false
	}
	var resp [37]byte
	if _, err := io.ReadFull(p.out, resp[:]); err != nil {
		return 0, 0, sum, false
	}
	copy(sum[:], resp[5:])
	return resp[0], int(binary.LittleEndian.Uint32(resp[1:5])), sum, true
}

// liblzmaAgrees compares liblzma's verdict on a stream with the expected plaintext.
// Returns "" when it agrees or is absent, otherwise a description.
func liblzmaAgrees(kind byte, dict uint32, data, plain []byte) string {
	st, n, sum, ok := liblzmaJudge(kind, dict, data)
	if !ok {
		return ""
	}
	if st != 'K' {
		return "liblzma status " + string(st)
	}
	if n != len(plain) || sum != sha256.Sum256(plain) {
		return "liblzma decodes to different content"
	}
	return ""
}

var (
	lzEncOnce sync.Once
	lzEnc     *liblzmaProc
)

// liblzmaEncode asks liblzma to encode data (format 'x' or 'a'); preset 255 = explicit lc/lp/pb/dict.
// ok=false when the helper is absent.
func liblzmaEncode(format byte, preset, check byte, lc, lp, pb int, dict uint32, data []byte) ([]byte, bool) {
	lzEncOnce.Do(func() {
		py, err := exec.LookPath("python3")
		if err != nil || exec.Command(py, "-c", "import lzma").Run() != nil {
			return
		}
		c := exec.Command(py, core.Root+"/tools/lzenc.py")
		in, e1 := c.StdinPipe()
		out, e2 := c.StdoutPipe()
		if e1 != nil || e2 != nil || c.Start() != nil {
			return
		}
		lzEnc = &liblzmaProc{cmd: c, in: in, out: bufio.NewReader(out)}
	})
	if lzEnc == nil {
		return nil, false
	}
	lzEnc.mu.Lock()
	defer lzEnc.mu.Unlock()
	h := []byte{format, preset, check, byte(lc), byte(lp), byte(pb), 0, 0, 0, 0, 0, 0, 0, 0}
	binary.LittleEndian.PutUint32(h[6:], dict)
	binary.LittleEndian.PutUint32(h[10:], uint32(len(data)))
	if _, err := lzEnc.in.Write(append(h, data...)); err != nil {
		return nil, false
	}
	var l [4]byte
	if _, err := io.ReadFull(lzEnc.out, l[:]); err != nil {
		return nil, false
	}
	res := make([]byte, binary.LittleEndian.Uint32(l[:]))
	if _, err := io.ReadFull(lzEnc.out, res); err != nil {
		return nil, false
	}
	return res, len(res) > 0
}
