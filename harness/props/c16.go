package props

import (
	"bytes"
	"fmt"
	"io"
	"strings"

	"github.com/ulikunitz/xz/lzma"

	"verif/core"
	"verif/ref"
)

// C16 — LZMA2 chunk discipline: the reader accepts exactly the legal chunk
// sequences; the writer only emits legal ones within the size limits.

type C16Case struct {
	Kinds   []int `json:",omitempty"` // chunk kinds (1..6), end chunk appended
	Control int   `json:",omitempty"` // control-byte probe: value of the byte
	Second  bool  `json:",omitempty"` // probe as second chunk after a legal first one
	Probe   bool  `json:",omitempty"`
	// SameProps: every properties-carrying chunk repeats the same lc/lp/pb (a "new properties"
	// chunk still implies a state reset); otherwise the properties rotate
	SameProps bool `json:",omitempty"`
	// Scheme 2/3/4: from one properties-carrying chunk to the next only pb / only lp / only lc changes;
	// scheme 5: the first chunk is longer than the reader's dictionary
	// scheme 6: the first chunk is so long that the bytes of chunk number Straddle (1-based after the
	// first) lie across the physical end of the reader's ring buffer (4 KiB dictionary + 1), and
	// every later LZMA chunk that inherits the dictionary starts with a match at the largest
	// distance the dictionary allows
	Scheme   int `json:",omitempty"`
	Straddle int `json:",omitempty"`
	// Src: kind of source the LZMA2 reader is given (sourceOf in envkinds.go; 0 *bytes.Reader)
	Src int `json:",omitempty"`
}

func init() {
	register(&Check{ID: "C16", Level: "model_checking", Run: runC16})
	scenario("C16", "sequence", func(r *core.Run, c core.Case) {
		var p C16Case
		params(c, &p)
		if p.Probe {
			c16Probe(r, p)
		} else {
			c16Sequence(r, p)
		}
	})
}

// lc >= 1 everywhere: the literal context of the first literal after a dictionary reset
// depends on the previous byte (0 after a real reset), which makes a skipped reset visible
var c16Props = []ref.Props{{LC: 1, LP: 1, PB: 2}, {LC: 2, LP: 0, PB: 1}, {LC: 1, LP: 0, PB: 3}}

// property schemes: how the properties change from one properties-carrying chunk to the next.
// 0: all three rotate (c16Props); 1: never (SameProps); 2: only pb; 3: only lp; 4: only lc.
var c16Schemes = map[int][]ref.Props{
	2: {{LC: 1, LP: 1, PB: 2}, {LC: 1, LP: 1, PB: 0}, {LC: 1, LP: 1, PB: 4}, {LC: 1, LP: 1, PB: 1}},
	3: {{LC: 1, LP: 0, PB: 2}, {LC: 1, LP: 2, PB: 2}, {LC: 1, LP: 1, PB: 2}, {LC: 1, LP: 3, PB: 2}},
	4: {{LC: 3, LP: 0, PB: 2}, {LC: 0, LP: 0, PB: 2}, {LC: 4, LP: 0, PB: 2}, {LC: 1, LP: 0, PB: 2}},
}

// c16Build realises a kind sequence as bytes. Chunks are observably
// different if a reset is skipped: odd plaintext lengths with lp,pb>0 make
// position-dependent contexts differ after a skipped dictionary reset; chunks
// after a state reset are coded against fresh probabilities while earlier
// chunks adapted them; "new props" chunks rotate lc/lp/pb; chunks without
// dictionary reset reach into the previous chunk.
func c16Build(kinds []int, sameProps bool, scheme ...int) (data []byte, plains [][]byte, offsets []int) {
	first := 5200
	if len(scheme) > 1 && scheme[0] == 6 {
		// dry run for the chunk lengths (they do not depend on the length of the long first chunk)
		_, pl, _ := c16BuildN(kinds, sameProps, 4000, scheme...)
		sum := 0
		for i := 1; i < scheme[1] && i < len(pl); i++ {
			sum += len(pl[i])
		}
		first = 4097 - sum - 2
	}
	return c16BuildN(kinds, sameProps, first, scheme...)
}

func c16BuildN(kinds []int, sameProps bool, first int, scheme ...int) (data []byte, plains [][]byte, offsets []int) {
	g := ref.NewLZMA2Gen()
	c16Props := c16Props
	if len(scheme) > 0 && c16Schemes[scheme[0]] != nil {
		c16Props = c16Schemes[scheme[0]]
	}
	farFirst := len(scheme) > 0 && scheme[0] == 6
	// scheme 7: the smallest chunks there are - one byte per uncompressed chunk, one literal per LZMA chunk
	tiny := len(scheme) > 0 && scheme[0] == 7
	// scheme 5: the first chunk is long (about 5200 bytes of 0xFF: more than the reader's 4 KiB
	// dictionary, so its ring buffer has wrapped, and the last byte has all top bits set) - every
	// later reset happens in a reader that is no longer in its initial state
	longFirst := len(scheme) > 0 && (scheme[0] == 5 || scheme[0] == 6)
	pi := 0
	for i, k := range kinds {
		kind := ref.ChunkKind(k)
		offsets = append(offsets, len(g.Out))
		var plain []byte
		var err error
		switch {
		case longFirst && i == 0 && (kind == ref.CRaw || kind == ref.CRawReset):
			plain, err = g.Add(ref.ChunkSpec{Kind: kind, Raw: bytes.Repeat([]byte{0xFF}, first)})
		case longFirst && i == 0:
			ops := []ref.Op{{Kind: ref.OpLit, Byte: 0xFF}}
			for rest := first - 1; rest > 0; {
				l := rest
				if l > 273 {
					l = 273
				}
				if l < 2 {
					ops = append(ops, ref.Op{Kind: ref.OpLit, Byte: 0xFF})
				} else {
					ops = append(ops, ref.Op{Kind: ref.OpMatch, Len: l, Dist: 1})
				}
				rest -= l
			}
			plain, err = g.Add(ref.ChunkSpec{Kind: kind, Ops: ops, Props: c16Props[0], Force: true})
		case tiny && (kind == ref.CRaw || kind == ref.CRawReset):
			plain, err = g.Add(ref.ChunkSpec{Kind: kind, Raw: []byte{byte('r' + i)}})
		case tiny:
			pr := c16Props[pi%len(c16Props)]
			if (kind == ref.CLZMAProps || kind == ref.CLZMAFull) && !sameProps {
				pi++
				pr = c16Props[pi%len(c16Props)]
			}
			plain, err = g.Add(ref.ChunkSpec{Kind: kind, Ops: []ref.Op{{Kind: ref.OpLit, Byte: byte('A' + i)}}, Props: pr, Force: true})
		case kind == ref.CRaw || kind == ref.CRawReset:
			plain, err = g.Add(ref.ChunkSpec{Kind: kind, Raw: []byte(fmt.Sprintf("raw%d\xff", i))})
		default:
			win := len(g.Win.Buf)
			if kind == ref.CLZMAFull {
				win = 0
			}
			// three low literals first: the 2nd/3rd reuse the literal context (position parity,
			// previous byte < 0x20) that the 1st one adapted — only if the decoder saw the same context
			ops := []ref.Op{{Kind: ref.OpLit, Byte: 1}, {Kind: ref.OpLit, Byte: 1}, {Kind: ref.OpLit, Byte: 2}, {Kind: ref.OpLit, Byte: 1},
				{Kind: ref.OpLit, Byte: byte('A' + i)}, {Kind: ref.OpLit, Byte: 'a'}, {Kind: ref.OpLit, Byte: byte('A' + i)}}
			if farFirst && win >= 1 {
				far := win
				if far > 4096 {
					far = 4096
				}
				ops = append([]ref.Op{{Kind: ref.OpMatch, Len: 2, Dist: uint32(far)}}, ops...)
			}
			if win >= 3 {
				dist := win + 1
				if longFirst && dist > 3000 {
					dist = 3000 // stay inside the 4 KiB dictionary the streams are decoded with
				}
				ops = append(ops, ref.Op{Kind: ref.OpMatch, Len: 3, Dist: uint32(dist)}) // reaches into the previous chunk
			} else {
				ops = append(ops, ref.Op{Kind: ref.OpMatch, Len: 2, Dist: 2})
			}
			ops = append(ops, ref.Op{Kind: ref.OpLit, Byte: 'a'}, ref.Op{Kind: ref.OpShortRep}, ref.Op{Kind: ref.OpLit, Byte: 0xFF})
			pr := c16Props[pi%len(c16Props)]
			if (kind == ref.CLZMAProps || kind == ref.CLZMAFull) && !sameProps {
				pi++
				pr = c16Props[pi%len(c16Props)]
			}
			if g.M == nil && (kind == ref.CLZMA || kind == ref.CLZMAState) {
				// illegal position (no properties yet): still emit well-formed bytes
				pr = c16Props[0]
			}
			plain, err = g.Add(ref.ChunkSpec{Kind: kind, Ops: ops, Props: pr, Force: true})
		}
		if err != nil {
			panic(fmt.Sprintf("C16 generator: %v", err))
		}
		plains = append(plains, append([]byte(nil), plain...))
	}
	offsets = append(offsets, len(g.Out))
	g.Add(ref.ChunkSpec{Kind: ref.CEnd})
	return g.Out, plains, offsets
}

func kindsString(kinds []int) string {
	var p []string
	for _, k := range kinds {
		p = append(p, ref.ChunkKind(k).String())
	}
	return strings.Join(p, ",")
}

func c16Sequence(r *core.Run, p C16Case) {
	cs := core.MkCase("C16", "sequence", p)
	data, plains, _ := c16Build(p.Kinds, p.SameProps, p.Scheme, p.Straddle)
	// specification verdict
	a := ref.NewChunkAutomaton()
	legalPrefix := 0
	var want []byte
	legal := true
	for i, k := range p.Kinds {
		before := a.String()
		if !a.Step(ref.ChunkKind(k)) {
			legal = false
			r.Trans(before + " --" + ref.ChunkKind(k).String() + "--> reject")
			break
		}
		r.Trans(before + " --" + ref.ChunkKind(k).String() + "--> " + a.String())
		r.State(before)
		r.State(a.String())
		legalPrefix = i + 1
		want = append(want, plains[i]...)
	}
	if legal {
		before := a.String()
		a.Step(ref.CEnd)
		r.Trans(before + " --end--> T")
		r.State("T")
	}
	// the reference decoder must agree with the automaton (binding of the model)
	rr := ref.DecodeLZMA2(data, 4096, false)
	if legal != (rr.Err == nil) || (legal && !bytes.Equal(rr.Out, want)) || (!legal && (!rr.IllegalSequence || rr.ErrChunk != legalPrefix)) {
		panic(fmt.Sprintf("C16 harness error: reference decoder and automaton disagree on %s: %v", kindsString(p.Kinds), rr.Err))
	}
	if legal {
		if s := liblzmaAgrees('r', 4096, data, want); s != "" {
			panic(fmt.Sprintf("C16 harness error: liblzma disagrees with the specification automaton on legal sequence %s: %s", kindsString(p.Kinds), s))
		}
	} else if st, _, _, ok := liblzmaJudge('r', 4096, data); ok && st == 'K' {
		panic(fmt.Sprintf("C16 harness error: liblzma accepts the sequence %s the automaton calls illegal", kindsString(p.Kinds)))
	}
	out, err, proto, pan := lzma2Decode(data, 4096)
	desc := fmt.Sprintf("chunk kinds [%s]+end (same properties in every chunk: %v, property scheme %d, straddling chunk %d); specification: legal=%v (legal prefix %d chunks)", kindsString(p.Kinds), p.SameProps, p.Scheme, p.Straddle, legal, legalPrefix)
	if p.Src != 0 {
		pan = core.Guard(func() {
			var rd io.Reader
			rd, err = lzma.Reader2Config{DictCap: 4096}.NewReader2(sourceOf(p.Src, data))
			if err != nil {
				return
			}
			out, err, proto = readAll(rd, 4096, 256<<20)
		})
		desc += "; source: " + sourceKindNames[p.Src]
	}
	cls := errClass(err)
	site := "lzma2R seq "
	if legal {
		site += "legal"
	} else {
		site += fmt.Sprintf("illegal %s@%s", ref.ChunkKind(p.Kinds[legalPrefix]).String(), stateAfter(p.Kinds[:legalPrefix]))
	}
	switch {
	case pan != nil:
		r.Violate(cs, site+" → panic@"+pan.Site(), desc, pan.Value+" | "+pan.Stack, "no panic")
	case proto != "":
		r.Violate(cs, site+" → protocol", desc, proto, "")
	case legal && (cls != "EOF" || !bytes.Equal(out, want)):
		r.Violate(cs, site+" → rejected-or-wrong-bytes", desc, fmt.Sprintf("%d bytes (%q) then %s", len(out), short(out), errStr(err)), fmt.Sprintf("%q then io.EOF", want))
	case !legal && (cls == "EOF" || cls == "nil"):
		r.Violate(cs, site+" → accepted", desc, fmt.Sprintf("%d bytes then %s", len(out), cls), "an error at the offending chunk")
	case !legal && !bytes.Equal(out, want):
		r.Violate(cs, site+" → wrong-bytes-before-rejection", desc, fmt.Sprintf("%q then %s", out, errStr(err)), fmt.Sprintf("exactly the plaintext of the legal prefix %q, then an error", want))
	}
	r.Trace(1)
	h := core.Hash(legal, legalPrefix, cls, len(out))
	r.Eval(core.Hash(kindsString(p.Kinds), cls, out))
	r.Nontrivial(h)
}

func stateAfter(kinds []int) string {
	a := ref.NewChunkAutomaton()
	for _, k := range kinds {
		a.Step(ref.ChunkKind(k))
	}
	return a.String()
}

// c16Probe: one control byte value as first chunk, or as second chunk after a
// legal first chunk (LZMA with properties), with a well-formed body.
func c16Probe(r *core.Run, p C16Case) {
	cs := core.MkCase("C16", "sequence", p)
	c := byte(p.Control)
	g := ref.NewLZMA2Gen()
	var want []byte
	if p.Second {
		pl, err := g.Add(ref.ChunkSpec{Kind: ref.CLZMAFull, Ops: []ref.Op{{Kind: ref.OpLit, Byte: 'k'}, {Kind: ref.OpLit, Byte: 'l'}, {Kind: ref.OpMatch, Len: 3, Dist: 2}}, Props: c16Props[0]})
		if err != nil {
			panic(err)
		}
		want = append(want, pl...)
	}
	kind, valid := ref.KindOfControl(c)
	a := ref.NewChunkAutomaton()
	if p.Second {
		a.Step(ref.CLZMAFull)
	}
	before := a.String()
	legal := valid && a.Step(kind)
	var body []byte
	switch {
	case !valid:
		// undefined control byte followed by bytes that would form a raw chunk
		body = append([]byte{c, 0, 2}, 'x', 'y', 'z')
		g.Out = append(g.Out, body...)
	case kind == ref.CEnd:
		// handled by the trailing end chunk below (the probe IS the end chunk)
	case kind == ref.CRaw || kind == ref.CRawReset:
		pl, _ := g.Add(ref.ChunkSpec{Kind: kind, Raw: []byte("xyz")})
		if legal {
			want = append(want, pl...)
		}
	default:
		// LZMA chunk whose uncompressed size has the high bits of the control byte
		un := int(c&0x1F)<<16 + 7
		ops := []ref.Op{{Kind: ref.OpLit, Byte: 'p'}}
		for n := 1; n < un; {
			l := un - n
			if l > 273 {
				l = 273
			}
			if l == 1 {
				ops = append(ops, ref.Op{Kind: ref.OpLit, Byte: 'p'})
			} else {
				if un-n-l == 1 {
					l--
				}
				ops = append(ops, ref.Op{Kind: ref.OpMatch, Len: l, Dist: 1})
			}
			n += l
		}
		pl, err := g.Add(ref.ChunkSpec{Kind: kind, Ops: ops, Props: c16Props[1], Force: true})
		if err != nil {
			panic(err)
		}
		if legal {
			want = append(want, pl...)
		}
	}
	g.Add(ref.ChunkSpec{Kind: ref.CEnd})
	data := g.Out
	// check the control byte really is the one requested
	rr := ref.DecodeLZMA2(data, 1<<22, false)
	if legal != (rr.Err == nil) || (legal && !bytes.Equal(rr.Out, want)) {
		panic(fmt.Sprintf("C16 harness error: reference decoder and automaton disagree on control byte %#02x (second=%v): %v", c, p.Second, rr.Err))
	}
	if st, _, _, ok := liblzmaJudge('r', 1<<22, data); ok {
		if legal != (st == 'K') {
			panic(fmt.Sprintf("C16 harness error: liblzma status %c for control byte %#02x (second=%v), automaton legal=%v", st, c, p.Second, legal))
		}
		r.Count("liblzma_cross_checked_probes", 1)
	}
	out, err, proto, pan := lzma2Decode(data, 1<<22)
	cls := errClass(err)
	desc := fmt.Sprintf("control byte %#02x as chunk #%d in state %s; specification: legal=%v", c, b2i(p.Second)+1, before, legal)
	site := fmt.Sprintf("lzma2R control-byte class=%s state=%s", controlClass(c), before)
	switch {
	case pan != nil:
		r.Violate(cs, site+" → panic@"+pan.Site(), desc, pan.Value+" | "+pan.Stack, "no panic")
	case proto != "":
		r.Violate(cs, site+" → protocol", desc, proto, "")
	case legal && (cls != "EOF" || !bytes.Equal(out, want)):
		r.Violate(cs, site+" → rejected-or-wrong-bytes", desc, fmt.Sprintf("%d bytes then %s", len(out), errStr(err)), fmt.Sprintf("%d bytes then io.EOF", len(want)))
	case !legal && (cls == "EOF" || cls == "nil"):
		r.Violate(cs, site+" → accepted", desc, fmt.Sprintf("%d bytes then %s", len(out), cls), "an error")
	case !legal && !bytes.Equal(out, want):
		r.Violate(cs, site+" → wrong-bytes-before-rejection", desc, fmt.Sprintf("%d bytes", len(out)), fmt.Sprintf("%d bytes", len(want)))
	}
	r.Trans(before + " --ctl:" + controlClass(c) + "--> " + map[bool]string{true: "ok", false: "reject"}[legal])
	r.Trace(1)
	h := core.Hash("probe", controlClass(c), before, cls)
	r.Eval(core.Hash("probe", c, p.Second, cls, len(out)))
	r.Nontrivial(h)
}

func b2i(b bool) int {
	if b {
		return 1
	}
	return 0
}

func controlClass(c byte) string {
	k, ok := ref.KindOfControl(c)
	if !ok {
		return "undefined(03-7F)"
	}
	return k.String()
}

func runC16(r *core.Run) {
	bindRef(r)
	depth := 6
	if thorough(r) {
		depth = 7
	}
	r.Rule = fmt.Sprintf("all sequences over the 6 non-terminal chunk kinds up to length %d (each closed by the end chunk and realised by the reference generator as concrete bytes whose chunks differ observably if a reset is skipped) + all 256 control bytes as first chunk and as second chunk after a legal first one; oracle = 2-flag specification automaton, cross-checked against the reference decoder and liblzma on every case; writer side: chunk headers of a set of Writer2/xz outputs must be legal. states = automaton states, transitions = (state, kind) steps incl. rejections; non-trivial = distinct (legal, legal-prefix length, outcome class, bytes)", depth)
	var cases []C16Case
	var rec func(pref []int)
	rec = func(pref []int) {
		cases = append(cases, C16Case{Kinds: append([]int(nil), pref...)})
		if len(pref) > 1 {
			cases = append(cases, C16Case{Kinds: append([]int(nil), pref...), SameProps: true})
			// only one of pb / lp / lc changes (sequences with at least two properties-carrying chunks)
			np := 0
			for _, k := range pref {
				if ref.ChunkKind(k) == ref.CLZMAProps || ref.ChunkKind(k) == ref.CLZMAFull {
					np++
				}
			}
			if len(pref) <= depth-2 {
				cases = append(cases, C16Case{Kinds: append([]int(nil), pref...), Scheme: 5})
				for j := 1; j < len(pref); j++ {
					cases = append(cases, C16Case{Kinds: append([]int(nil), pref...), Scheme: 6, Straddle: j})
				}
			}
			if np >= 2 && len(pref) <= depth-1 {
				for sc := 2; sc <= 4; sc++ {
					cases = append(cases, C16Case{Kinds: append([]int(nil), pref...), Scheme: sc})
				}
			}
		}
		if len(pref) == depth {
			return
		}
		for k := 1; k <= 6; k++ {
			rec(append(pref, k))
		}
	}
	rec(nil)
	// the sequences of up to four chunks again through other kinds of source (buffered with Peek /
	// Discard, one byte per call, short reads, data together with io.EOF)
	{
		base := cases
		for _, c := range base {
			if len(c.Kinds) > 4 || len(c.Kinds) == 0 {
				continue
			}
			for _, sk := range []int{1, 2, 3, 4, 5} {
				q := c
				q.Src = sk
				cases = append(cases, q)
			}
			if c.Scheme == 0 && !c.SameProps {
				for _, sk := range []int{0, 1, 2, 3, 5} {
					q := c
					q.Scheme, q.Src = 7, sk
					cases = append(cases, q)
				}
			}
		}
	}
	for c := 0; c < 256; c++ {
		cases = append(cases, C16Case{Probe: true, Control: c}, C16Case{Probe: true, Control: c, Second: true})
	}
	r.Extra("sequences", len(cases)-512)
	r.Note("sequences of up to four chunks are additionally decoded through five other kinds of source (bufio 16 / default, one byte per call, short reads, data together with io.EOF)")
	r.Note("every sequence of two or more chunks is realised twice: with rotating properties and with the same properties in every chunk; sequences (up to depth-1) with at least two properties-carrying chunks additionally with only pb / only lp / only lc changing")
	r.Extra("control_byte_probes", 512)
	r.Extra("liblzma_second_opinion", liblzmaAvailable())
	r.Sample(map[string]interface{}{"kinds": kindsString(cases[100].Kinds) + ",end"})
	r.Sample(map[string]interface{}{"kinds": kindsString(cases[len(cases)-600].Kinds) + ",end"})
	r.Sample(map[string]interface{}{"control_byte": "0x83 as second chunk after lzma+props+dictreset"})
	r.Parallel(len(cases), "chunk sequences", func(i int) {
		if cases[i].Probe {
			c16Probe(r, cases[i])
		} else {
			c16Sequence(r, cases[i])
		}
	})
	// writer side: every chunk sequence emitted by the writers in a menu of histories is legal
	c16Writer(r)
	// legal sequences as liblzma writes them (raw LZMA2 files of the frozen corpus, among them
	// uncompressed chunks followed by state-reset chunks) are accepted
	var raws []ref.CorpusEntry
	for _, e := range bindRef(nil) {
		if strings.HasPrefix(e.Kind, "lzma2:") {
			raws = append(raws, e)
		}
	}
	r.Parallel(len(raws)*2, "liblzma raw LZMA2 corpus", func(i int) {
		e := raws[i/2]
		dc := []int{65536, 1 << 22}[i%2]
		out, err, proto, pan := lzma2Decode(e.Data, dc)
		cs := core.MkCase("C16", "corpus", map[string]interface{}{"file": e.File, "dictcap": dc})
		desc := fmt.Sprintf("liblzma-written raw LZMA2 file %s, Reader2 DictCap %d", e.File, dc)
		switch {
		case pan != nil:
			r.Violate(cs, "lzma2R liblzma-sequence → panic@"+pan.Site(), desc, pan.Value, "no panic")
		case proto != "" || errClass(err) != "EOF" || !bytes.Equal(out, e.Plain):
			r.Violate(cs, "lzma2R liblzma-sequence → rejected-or-wrong-bytes", desc, fmt.Sprintf("%d bytes then %s %s", len(out), errStr(err), proto), fmt.Sprintf("%d bytes then io.EOF", len(e.Plain)))
		}
		rr := ref.DecodeLZMA2(e.Data, 1<<22, false)
		for _, c := range rr.Chunks {
			r.Trans("liblzma:" + c.StateBefore + " --" + c.Kind.String())
		}
		r.Trace(1)
		r.Eval(core.Hash("corpus", e.File, dc, errClass(err), len(out)))
	})
	r.Extra("liblzma_raw_lzma2_files", len(raws))
	// chunk size fields at their limits (generator of C03), judged by liblzma as well
	for _, e := range c03Extremes() {
		if s := liblzmaAgrees('r', 1<<22, e.lz2, e.plain); s != "" {
			panic("C16 harness error: liblzma disagrees on the size-field extreme " + e.name + ": " + s)
		}
		out, err, proto, pan := lzma2Decode(e.lz2, 4096)
		for sk := 1; sk < nSourceKinds && pan == nil && proto == "" && errClass(err) == "EOF" && bytes.Equal(out, e.plain); sk++ {
			sk := sk
			pan = core.Guard(func() {
				var rd io.Reader
				rd, err = lzma.Reader2Config{DictCap: 4096}.NewReader2(sourceOf(sk, e.lz2))
				if err != nil {
					return
				}
				out, err, proto = readAll(rd, 4096, 256<<20)
			})
		}
		cs := core.MkCase("C16", "extreme", map[string]string{"name": e.name})
		switch {
		case pan != nil:
			r.Violate(cs, "lzma2R size-field-extreme → panic@"+pan.Site(), e.name, pan.Value, "no panic")
		case proto != "" || errClass(err) != "EOF" || !bytes.Equal(out, e.plain):
			r.Violate(cs, "lzma2R size-field-extreme → rejected-or-wrong-bytes", e.name, fmt.Sprintf("%d bytes then %s %s", len(out), errStr(err), proto), fmt.Sprintf("%d bytes then io.EOF", len(e.plain)))
		}
		r.Trace(1)
		r.Eval(core.Hash("extreme", e.name, errClass(err), len(out)))
	}
	need := 0
	for _, st := range []string{"D1P1", "D0P1", "D0P0"} {
		for k := 1; k <= 6; k++ {
			a := ref.ChunkAutomaton{NeedDict: st[1] == '1', NeedProps: st[3] == '1'}
			b := a
			to := "reject"
			if b.Step(ref.ChunkKind(k)) {
				to = b.String()
			}
			if !r.HasTrans(a.String() + " --" + ref.ChunkKind(k).String() + "--> " + to) {
				need++
			}
		}
	}
	r.Extra("unvisited_state_kind_pairs", need)
	if need > 0 {
		panic("C16 vacuity self-test: not all (state, kind) pairs of the specification automaton were exercised")
	}
}

// c16Writer parses the chunk headers of writer outputs (LZMA2 writer histories and xz writer shapes).
func c16Writer(r *core.Run) {
	type wcase struct {
		cfg   L2Cfg
		shape []Seg
		steps []L2Step
	}
	var ws []wcase
	shapes := [][]Seg{
		{{K: "T", Seed: 1, N: 300}}, {{K: "R", Seed: 1, N: 70000}}, {{K: "T", Seed: 2, N: 70000}, {K: "R", Seed: 2, N: 70000}},
		{{K: "R", Seed: 3, N: 100}, {K: "T", Seed: 3, N: 100}}, {{K: "Z", N: 1<<21 + 5}}, {{K: "R", Seed: 4, N: 1<<21 + 70000}}, {},
	}
	for _, sh := range shapes {
		for _, dc := range []int{4096, 65536, 1 << 20} {
			for m := 0; m < 2; m++ {
				if m == 1 && (dc > 65536 || sh != nil && len(sh) > 0 && sh[0].K == "Z") {
					continue
				}
				ws = append(ws, wcase{cfg: L2Cfg{DictCap: dc, Matcher: m}, shape: sh})
				ws = append(ws, wcase{cfg: L2Cfg{DictCap: dc, Matcher: m}, shape: sh, steps: []L2Step{{"w", 50}, {"f", 0}, {"w", 66000}, {"f", 0}, {"f", 0}, {"w", 10}}})
			}
		}
	}
	r.Parallel(len(ws), "writer outputs", func(i int) {
		w := ws[i]
		data := buildShape(w.shape)
		var out []byte
		if pan := core.Guard(func() { out = mustLibLZMA2(w.cfg, data, w.steps) }); pan != nil {
			r.Violate(core.MkCase("C16", "writer", w.cfg), "lzma2W writer-fails", fmt.Sprintf("cfg %+v input %s", w.cfg, shapeString(w.shape)), pan.Value, "stream")
			return
		}
		rr := ref.DecodeLZMA2(out, uint32(w.cfg.DictCap), false)
		if rr.Err != nil || !bytes.Equal(rr.Out, data) {
			sig := "lzma2W emits-invalid-stream"
			if rr.IllegalSequence {
				sig = "lzma2W emits-illegal-chunk-sequence"
			}
			r.Violate(core.MkCase("C16", "writer", w.cfg), sig, fmt.Sprintf("cfg %+v input %s steps %v", w.cfg, shapeString(w.shape), w.steps), fmt.Sprint(rr.Err), "legal chunk sequence within the size limits")
			return
		}
		for _, c := range rr.Chunks {
			r.Trans("writer:" + c.StateBefore + " --" + c.Kind.String())
			if c.Compressed > 1<<16 || c.Uncompressed > 1<<21 || (c.Compressed == 0 && c.Uncompressed > 1<<16) {
				r.Violate(core.MkCase("C16", "writer", w.cfg), "lzma2W chunk-size-limit", fmt.Sprintf("cfg %+v", w.cfg), fmt.Sprintf("%+v", c), "<=64KiB compressed, <=2MiB uncompressed, raw <=64KiB")
			}
		}
		r.Trace(1)
		r.Eval(core.Hash("writer", len(rr.Chunks), len(out)))
	})
	r.Extra("writer_outputs_parsed", len(ws))
}
