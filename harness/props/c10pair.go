package props

import (
	"bytes"
	"fmt"
	"os"
	"path/filepath"
	"strings"
	"time"

	"verif/core"
	"verif/sysx"
)

// Two gxz processes on the same file: interleavings of their file-system calls.
//
// Both instances are traced (one tracer worker each) and held at "gates": process A runs until its
// k-th file-system call, then process B runs until its j-th, then A runs to its end, then B is either
// killed where it stands or allowed to finish - every (k, j) for a menu of instance pairs. That is
// the schedule space "A, B, A" (two context switches) plus a crash point of B; within it the
// exploration is complete. Oracle: whatever the instances report, the user's data exists in one
// complete form (input byte-identical, or a complete output under the target name), and when
// nobody was killed no invented (temporary) file is left.

type c10PairScn struct {
	Name         string
	Files        []c10File
	ArgsA, ArgsB []string
	Input        string
	Target       string
	Decompress   bool
	Format       string
	Plain        string
}

type C10PairCase struct {
	Scenario string
	K, J     int
	KillB    bool
}

func c10PairScenarios(th bool) []c10PairScn {
	f := func(name, content string) c10File { return c10File{Name: name, Content: content, Mode: 0o644} }
	content := "small"
	if th {
		content = "big"
	}
	var out []c10PairScn
	for _, p := range [][2][]string{{{}, {"-f"}}, {{"-f"}, {}}, {{"-f"}, {"-f"}}, {{}, {}}} {
		a := append(append([]string{}, p[0]...), "file")
		b := append(append([]string{}, p[1]...), "file")
		out = append(out, c10PairScn{Name: fmt.Sprintf("z [%s] | [%s]", strings.Join(p[0], " "), strings.Join(p[1], " ")), Files: []c10File{f("file", "plain:"+content)}, ArgsA: a, ArgsB: b, Input: "file", Target: "file.xz", Format: "xz", Plain: content})
		ad := append(append([]string{"-d"}, p[0]...), "file.xz")
		bd := append(append([]string{"-d"}, p[1]...), "file.xz")
		out = append(out, c10PairScn{Name: fmt.Sprintf("d [%s] | [%s]", strings.Join(p[0], " "), strings.Join(p[1], " ")), Files: []c10File{f("file.xz", "xz:"+content)}, ArgsA: ad, ArgsB: bd, Input: "file.xz", Target: "file", Decompress: true, Format: "xz", Plain: content})
	}
	return out
}

// runPair executes one schedule; ok=false when the orchestration itself failed (time-out).
func (e *c10Env) runPair(s c10PairScn, c C10PairCase) (st dirState, resA, resB sysx.Result, ok bool) {
	dir, err := os.MkdirTemp(e.tmp, "p-")
	if err != nil {
		panic(err)
	}
	defer os.RemoveAll(dir)
	work, gate := filepath.Join(dir, "d"), filepath.Join(dir, "gate")
	os.Mkdir(work, 0o755)
	os.Mkdir(gate, 0o755)
	for _, f := range s.Files {
		if err := os.WriteFile(filepath.Join(work, f.Name), c10Content(f.Content), os.FileMode(f.Mode)); err != nil {
			panic(err)
		}
	}
	gatesB := []int{0}
	if c.J > 0 {
		gatesB = append(gatesB, c.J)
	}
	jobA := sysx.Job{Argv: append([]string{e.gxz}, s.ArgsA...), Dir: work, Mode: "record", K2: -1, GateDir: gate, GateTag: "A", GateAt: []int{c.K}, StdoutFile: filepath.Join(dir, "outA"), TimeoutMs: 15000}
	jobB := sysx.Job{Argv: append([]string{e.gxz}, s.ArgsB...), Dir: work, Mode: "record", K2: -1, GateDir: gate, GateTag: "B", GateAt: gatesB, StdoutFile: filepath.Join(dir, "outB"), TimeoutMs: 15000}
	type done struct {
		r   sysx.Result
		err error
	}
	chA, chB := make(chan done, 1), make(chan done, 1)
	go func() { r, err := e.pool.Run(jobA); chA <- done{r, err} }()
	go func() { r, err := e.pool.Run(jobB); chB <- done{r, err} }()
	var dA, dB *done
	touch := func(name string) { os.WriteFile(filepath.Join(gate, name), nil, 0o644) }
	limit := time.Now().Add(20 * time.Second)
	// waitAt: true when the process stands at the gate, false when it finished without reaching it
	waitAt := func(tag string, k int, ch chan done, d **done) bool {
		for {
			if *d != nil {
				return false
			}
			if _, err := os.Stat(filepath.Join(gate, fmt.Sprintf("%s.at.%d", tag, k))); err == nil {
				return true
			}
			select {
			case x := <-ch:
				*d = &x
				return false
			default:
			}
			if time.Now().After(limit) {
				return false
			}
			time.Sleep(200 * time.Microsecond)
		}
	}
	finish := func(ch chan done, d **done) {
		if *d == nil {
			select {
			case x := <-ch:
				*d = &x
			case <-time.After(25 * time.Second):
			}
		}
	}
	atA := waitAt("A", c.K, chA, &dA)
	atB := waitAt("B", 0, chB, &dB)
	heldB := -1
	if atB {
		heldB = 0
		if c.J > 0 {
			touch("B.go.0")
			heldB = -1
			if waitAt("B", c.J, chB, &dB) {
				heldB = c.J
			}
		}
	}
	if atA {
		touch(fmt.Sprintf("A.go.%d", c.K))
	}
	finish(chA, &dA)
	if heldB >= 0 {
		if c.KillB {
			touch(fmt.Sprintf("B.kill.%d", heldB))
		} else {
			touch(fmt.Sprintf("B.go.%d", heldB))
		}
	}
	finish(chB, &dB)
	if dA == nil || dB == nil || dA.err != nil || dB.err != nil || dA.r.TimedOut || dB.r.TimedOut || dA.r.Err != "" || dB.r.Err != "" {
		// release everything so that the workers come back
		for k := 0; k < 200; k++ {
			touch(fmt.Sprintf("A.kill.%d", k))
			touch(fmt.Sprintf("B.kill.%d", k))
		}
		finish(chA, &dA)
		finish(chB, &dB)
		return nil, sysx.Result{}, sysx.Result{}, false
	}
	return readDir(work), dA.r, dB.r, true
}

func (e *c10Env) judgePair(r *core.Run, s c10PairScn, c C10PairCase) {
	cs := core.MkCase("C10", "pair", c)
	st, ra, rb, ok := e.runPair(s, c)
	if !ok {
		r.Count("pair_schedules_not_completed", 1)
		return
	}
	sc := C10Scn{Input: s.Input, Target: s.Target, Decompress: s.Decompress, Format: s.Format, Plain: s.Plain, Files: s.Files}
	in0 := sc.initial(s.Input)
	inNow, inThere := st[s.Input]
	inputIntact := inThere && bytes.Equal(inNow, in0)
	tgtNow, tgtThere := st[s.Target]
	tgtComplete := tgtThere && sc.complete(tgtNow)
	desc := fmt.Sprintf("two instances in one directory {%s}: A = gxz %s runs until its file-system call %d, B = gxz %s runs until its call %d, A runs to its end, B is %s", c10Files(sc), strings.Join(s.ArgsA, " "), c.K, strings.Join(s.ArgsB, " "), c.J, map[bool]string{true: "killed", false: "allowed to finish"}[c.KillB])
	observed := fmt.Sprintf("A exit=%d, B exit=%d killed=%v, dir={%s}", ra.Exit, rb.Exit, rb.Killed, st.names())
	site := "gxz two instances " + s.Name
	outcome := "ok"
	if !inputIntact && !tgtComplete {
		r.Violate(cs, site+" → data-lost", desc, observed, "input intact, or complete output under the target name")
		outcome = "data-lost"
	}
	if !rb.Killed {
		for n := range st {
			if n != s.Input && n != s.Target && sc.initial(n) == nil {
				r.Violate(cs, site+" → temp-left", desc, observed, "no temporary file remains when no process was killed")
				outcome = "temp-left"
			}
		}
		if tgtThere && !tgtComplete {
			r.Violate(cs, site+" → partial-target", desc, observed, "no partial file under the target name")
			outcome = "partial-target"
		}
	}
	h := core.Hash(s.Name, outcome, ra.Exit, rb.Exit, rb.Killed, st.names())
	r.Eval(h)
	r.Nontrivial(h)
}

// c10Pairs enumerates every (k, j) of every instance pair.
func c10Pairs(r *core.Run, env *c10Env, poolSize int) {
	th := thorough(r)
	scns := c10PairScenarios(th)
	type job struct {
		s c10PairScn
		c C10PairCase
	}
	var jobs []job
	for si, s := range scns {
		if !th && si >= 6 {
			break // quick: the pairs that involve -f; thorough: also the plain | plain pair and larger files
		}
		// the number of calls of a solo run bounds the gate indices (an instance that meets the
		// other one's files may issue fewer calls; a gate that is never reached is simply not taken)
		sa, _, _ := env.run(C10Scn{Name: s.Name, Args: s.ArgsA, Files: s.Files}, C10Case{Mode: "record"})
		sb, _, _ := env.run(C10Scn{Name: s.Name, Args: s.ArgsB, Files: s.Files}, C10Case{Mode: "record"})
		na, nb := len(sa.Calls), len(sb.Calls)
		for k := 0; k <= na; k++ {
			for j := 0; j <= nb; j++ {
				jobs = append(jobs, job{s, C10PairCase{Scenario: s.Name, K: k, J: j, KillB: true}})
				if th || (k+j)%3 == 0 {
					jobs = append(jobs, job{s, C10PairCase{Scenario: s.Name, K: k, J: j}})
				}
			}
		}
	}
	sem := make(chan struct{}, maxInt(1, poolSize/2))
	r.Parallel(len(jobs), "two-instance schedules", func(i int) {
		sem <- struct{}{}
		env.judgePair(r, jobs[i].s, jobs[i].c)
		<-sem
	})
	r.Extra("two_instance_schedules", len(jobs))
	r.Note("two gxz instances on one file: schedules A[0..k) B[0..j) A[k..] then B killed / finished, every (k, j)")
}
