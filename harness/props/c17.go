package props

import (
	"bytes"
	"fmt"
	"io"
	"os"
	"os/exec"
	"path/filepath"
	"strings"

	"verif/core"
	"verif/ref"
)

// C17 — compression is effective on redundancy and never expands noticeably.

type C17Case struct {
	Family  string // "run", "xx", "random"
	API     string // "xz" or "lzma2"
	Byte    int    `json:",omitempty"`
	N       int
	Seed    int `json:",omitempty"`
	DictCap int
	BufSize int `json:",omitempty"`
	Matcher int
	Props   [3]int
	Frag    int `json:",omitempty"` // size of the Write calls the input is handed over in (0 = one Write)
	// Flush (LZMA2 writer, run and X‖X only): a Flush after the first 8 bytes of a run / between X and
	// its copy. The dictionary survives a Flush; should a writer reset it there (legal), the redundancy
	// is no longer inside the window and the case is not judged.
	Flush bool `json:",omitempty"`
	// Pre (X‖X only): a run of PreLen bytes of value PreByte is written before X (in a Write call of
	// its own): the match finder's structures are no longer in their initial shape when X arrives.
	// The bound grows by PreLen (the run itself may cost up to its own length).
	PreByte int `json:",omitempty"`
	PreLen  int `json:",omitempty"`
	// Feed > 0: the input is handed over by io.Copy from a bare reader (feedOf in envkinds.go: short
	// reads, 1000-byte reads, 1-byte reads), not by Write calls
	Feed int `json:",omitempty"`
}

func init() {
	register(&Check{ID: "C17", Level: "exploration", Run: runC17})
	scenario("C17", "gxz", func(r *core.Run, c core.Case) {
		var p C17Gxz
		params(c, &p)
		c17GxzCase(r, p, os.Getenv("VERIF_GXZ"))
	})
	scenario("C17", "ratio", func(r *core.Run, c core.Case) {
		var p C17Case
		params(c, &p)
		c17Case(r, p)
	})
}

func c17Case(r *core.Run, p C17Case) {
	cs := core.MkCase("C17", "ratio", p)
	var data []byte
	switch p.Family {
	case "run":
		data = buildShape([]Seg{{K: "A", B: byte(p.Byte), N: p.N}})
	case "xx":
		x := randBytes(p.Seed, p.N)
		data = append(append(bytes.Repeat([]byte{byte(p.PreByte)}, p.PreLen), x...), x...)
	case "random":
		data = randBytes(p.Seed+100, p.N)
	}
	var outLen int
	windowReset := false
	blocks := 1
	desc := fmt.Sprintf("%+v", p)
	pan := core.Guard(func() {
		if p.Feed > 0 {
			var sb sinkBuf
			var w io.WriteCloser
			var err error
			if p.API == "xz" {
				w, err = XZCfg{Props: true, LC: p.Props[0], LP: p.Props[1], PB: p.Props[2], DictCap: p.DictCap, BufSize: p.BufSize, Matcher: p.Matcher}.open(&sb)
			} else {
				w, err = L2Cfg{Props: true, LC: p.Props[0], LP: p.Props[1], PB: p.Props[2], DictCap: p.DictCap, BufSize: p.BufSize, Matcher: p.Matcher}.open(&sb)
			}
			if err != nil {
				panic(err)
			}
			if n, err := feedOf(w, data, p.Feed); err != nil || n != int64(len(data)) {
				panic(fmt.Sprintf("io.Copy into the writer: n=%d err=%v", n, err))
			}
			if err := w.Close(); err != nil {
				panic(err)
			}
			outLen = len(sb.b)
			return
		}
		if p.API == "xz" {
			cfg := XZCfg{Props: true, LC: p.Props[0], LP: p.Props[1], PB: p.Props[2], DictCap: p.DictCap, BufSize: p.BufSize, Matcher: p.Matcher}
			var parts []int
			for n := 0; p.Frag > 0 && n+p.Frag < len(data); n += p.Frag {
				parts = append(parts, p.Frag)
			}
			if p.PreLen > 0 {
				parts = []int{p.PreLen}
			}
			outLen = len(mustLibXZ(cfg, data, parts...))
		} else {
			cfg := L2Cfg{Props: true, LC: p.Props[0], LP: p.Props[1], PB: p.Props[2], DictCap: p.DictCap, BufSize: p.BufSize, Matcher: p.Matcher}
			var steps []L2Step
			for n := 0; p.Frag > 0 && n+p.Frag < len(data); n += p.Frag {
				steps = append(steps, L2Step{"w", p.Frag})
			}
			if p.PreLen > 0 {
				steps = []L2Step{{"w", p.PreLen}}
			}
			if p.Flush {
				k := 8
				if p.Family == "xx" {
					k = p.N
				}
				steps = []L2Step{{"w", k}, {"f", 0}}
			}
			out := mustLibLZMA2(cfg, data, steps)
			outLen = len(out)
			if p.Flush {
				x := ref.DecodeLZMA2(out, 1<<30, false)
				for i, c := range x.Chunks {
					if i > 0 && (c.Kind == ref.CRawReset || c.Kind == ref.CLZMAFull) {
						windowReset = true
					}
				}
			}
		}
	})
	if pan != nil {
		r.Violate(cs, "writer fails matcher="+matcherName(p.Matcher), desc, pan.Value, "stream (see C01/C08)")
		return
	}
	if windowReset {
		r.Count("not_judged_writer_reset_the_dictionary_at_flush", 1)
		return
	}
	allow := 128 + 64*blocks
	var bound int
	n := len(data)
	switch p.Family {
	case "run":
		bound = n/500 + allow
	case "xx":
		bound = p.N*115/100 + allow + p.PreLen
	case "random":
		bound = n + n/500 + allow
	}
	if outLen > bound {
		sig := fmt.Sprintf("matcher=%s %s ratio", matcherName(p.Matcher), map[string]string{"run": "run-of-equal-bytes", "xx": "X‖X", "random": "incompressible-expansion"}[p.Family])
		r.Violate(cs, sig, desc, fmt.Sprintf("%d bytes of output for %d bytes of input", outLen, n), fmt.Sprintf("at most %d bytes", bound))
	}
	r.Eval(core.Hash(p.Family, p.API, p.Matcher, p.N, outLen))
	// non-trivial: distinct (family, matcher, size class, ratio bucket)
	r.Nontrivial(core.Hash(p.Family, p.Matcher, p.N, p.DictCap, outLen*20/(n+1)))
}

// C17Gxz is one run of the gxz tool judged by the same three bounds: the operand is a regular file, a
// symbolic link to it (compressed with -f) or standard input (-c); the preset's dictionary (256 KiB for
// -0, 8 MiB by default) holds the whole input.
type C17Gxz struct {
	Family  string // "run", "xx", "random"
	Format  string // "xz" or "lzma"
	Preset  string // "" (default) or "-0"
	Operand string // "file", "symlink", "stdin"
}

func c17GxzCase(r *core.Run, p C17Gxz, gxz string) {
	cs := core.MkCase("C17", "gxz", p)
	var data []byte
	var bound int
	switch p.Family {
	case "run":
		data = bytes.Repeat([]byte{'A'}, 1<<20)
		bound = len(data)/500 + 192
	case "xx":
		x := randBytes(71, 200<<10)
		data = append(append([]byte(nil), x...), x...)
		bound = len(x)*115/100 + 192
	case "random":
		data = randBytes(72, 300<<10)
		bound = len(data) + len(data)/500 + 192
	}
	dir, err := os.MkdirTemp("", "verif-c17-")
	if err != nil {
		panic(err)
	}
	defer os.RemoveAll(dir)
	if err := os.WriteFile(filepath.Join(dir, "f"), data, 0o644); err != nil {
		panic(err)
	}
	argv := []string{"-k", "-F", p.Format}
	if p.Preset != "" {
		argv = append(argv, p.Preset)
	}
	cmd := exec.Command(gxz)
	cmd.Dir = dir
	var so, se bytes.Buffer
	cmd.Stdout, cmd.Stderr = &so, &se
	outName := ""
	switch p.Operand {
	case "file":
		argv = append(argv, "f")
		outName = "f." + p.Format
	case "symlink":
		if err := os.Symlink("f", filepath.Join(dir, "l")); err != nil {
			panic(err)
		}
		argv = append(argv, "-f", "l")
		outName = "l." + p.Format
	case "stdin":
		argv = append(argv, "-c")
		cmd.Stdin = bytes.NewReader(data)
	}
	cmd.Args = append(cmd.Args, argv...)
	desc := fmt.Sprintf("gxz %s with a %d-byte input (%s), operand: %s", strings.Join(argv, " "), len(data), p.Family, p.Operand)
	if err := cmd.Run(); err != nil {
		r.Violate(cs, "gxz fails "+p.Operand, desc, err.Error()+": "+firstLine(se.String()), "exit status 0 (see C15)")
		return
	}
	out := so.Bytes()
	if outName != "" {
		out, err = os.ReadFile(filepath.Join(dir, outName))
		if err != nil {
			r.Violate(cs, "gxz output missing "+p.Operand, desc, err.Error(), outName)
			return
		}
	}
	if dec, derr := decodeAs(p.Format, out); derr != nil || !bytes.Equal(dec, data) {
		r.Violate(cs, "gxz output does not decode "+p.Operand, desc, fmt.Sprint(derr), "the input (see C15)")
		return
	}
	if len(out) > bound {
		r.Violate(cs, fmt.Sprintf("gxz %s ratio operand=%s", map[string]string{"run": "run-of-equal-bytes", "xx": "X‖X", "random": "incompressible-expansion"}[p.Family], p.Operand), desc, fmt.Sprintf("%d bytes of output for %d bytes of input", len(out), len(data)), fmt.Sprintf("at most %d bytes", bound))
	}
	r.Eval(core.Hash("gxz", p, len(out)))
	r.Nontrivial(core.Hash("gxz", p.Family, p.Format, p.Operand, len(out)*20/(len(data)+1)))
}

func c17GxzCases() []C17Gxz {
	var cs []C17Gxz
	for _, fam := range []string{"run", "xx", "random"} {
		for _, f := range []string{"xz", "lzma"} {
			if fam == "random" && f == "lzma" {
				continue // the classic format has no stored chunks: the expansion bound is stated for xz / LZMA2
			}
			for _, ps := range []string{"", "-0"} {
				for _, op := range []string{"file", "symlink", "stdin"} {
					cs = append(cs, C17Gxz{Family: fam, Format: f, Preset: ps, Operand: op})
				}
			}
		}
	}
	return cs
}

func runC17(r *core.Run) {
	th := thorough(r)
	r.Rule = "finite grid, enumerated completely: runs of every byte value 0..255 x lengths x both matchers; X‖X for fixed generator seeds x |X| x matchers x DictCap (|X| <= DictCap), also behind a run of 200 / 3000 equal bytes (00, 61, 80, FF) written by an earlier Write; incompressible data seeds x lengths incl. 64 KiB / 2 MiB chunk limits x DictCap>=64KiB x BufSize x lc/lp/pb corners, xz and raw LZMA2; a sub-grid with the input handed over in Write calls of 250 / 700 / 4096 bytes and by io.Copy from bare readers with half / 1000-byte / 1-byte reads; the gxz tool with default and -0 preset on a file / a symbolic link (-f) / standard input; oracle = the three numeric bounds of the statement with the 128 B/stream + 64 B/block allowance. non-trivial = distinct (family, matcher, size, dictionary, ratio bucket)"
	var cases []C17Case
	def := [3]int{3, 0, 2}
	// runs
	for b := 0; b < 256; b++ {
		for _, n := range []int{600, 4096, 65536, 300000, 1<<21 + 70000} {
			if !th && n >= 65536 && b%16 != 5 && b != 0 && b != 255 {
				continue
			}
			if n > 300000 && b%64 != 0 && !th {
				continue
			}
			cases = append(cases, C17Case{Family: "run", API: "xz", Byte: b, N: n, DictCap: 1 << 20, Props: def})
			if n <= 65536 && (th || n <= 4096 || b%32 == 0) {
				cases = append(cases, C17Case{Family: "run", API: "xz", Byte: b, N: n, DictCap: 4096, Matcher: 1, Props: def})
			}
		}
	}
	// X‖X
	seeds := 4
	if th {
		seeds = 8
	}
	for s := 0; s < seeds; s++ {
		for _, n := range []int{100, 2000, 30000, 48 << 10, 1<<16 - 1, 1 << 16, 500000, 1<<20 - 1, 1 << 20} {
			for m := 0; m < 2; m++ {
				for _, dc := range []int{1 << 16, 1 << 20} {
					if n > dc {
						continue
					}
					// |X| = DictCap and DictCap-1: the second copy lies exactly at the window edge;
					// 2|X| > DictCap+BufSize: the encoder ring buffer wraps between the copies
					if m == 1 && n > 1<<16 && !th {
						continue
					}
					if n >= 500000 && s > 1 && !th {
						continue
					}
					api := "xz"
					if s%2 == 1 {
						api = "lzma2"
					}
					cases = append(cases, C17Case{Family: "xx", API: api, Seed: s, N: n, DictCap: dc, Matcher: m, Props: def})
				}
			}
		}
	}
	// X‖X behind a run of equal bytes written earlier on the same writer
	for _, pb := range []int{0x00, 0x61, 0x80, 0xFF} {
		for _, pl := range []int{200, 3000} {
			for si, n := range []int{2000, 12288, 30000} {
				for m := 0; m < 2; m++ {
					api := "xz"
					if (si+m)%2 == 1 {
						api = "lzma2"
					}
					cases = append(cases, C17Case{Family: "xx", API: api, Seed: 40 + si, N: n, DictCap: 1 << 16, Matcher: m, Props: def, PreByte: pb, PreLen: pl})
				}
			}
		}
	}
	// the input handed over by io.Copy from bare readers with short reads (uses a ReadFrom method of
	// the writer when there is one)
	for _, feed := range []int{3, 4, 5} {
		for ai, api := range []string{"xz", "lzma2"} {
			cases = append(cases, C17Case{Family: "run", API: api, Byte: 0x41 + ai, N: 32768, DictCap: 1 << 16, Props: def, Feed: feed},
				C17Case{Family: "xx", API: api, Seed: 50 + ai, N: 30000, DictCap: 1 << 16, Props: def, Feed: feed},
				C17Case{Family: "random", API: api, Seed: 60 + ai, N: 66000, DictCap: 1 << 16, Props: def, Feed: feed})
		}
	}
	// incompressible
	corners := [][3]int{{3, 0, 2}, {0, 0, 0}, {0, 4, 4}, {4, 0, 0}}
	for s := 0; s < seeds; s++ {
		for _, n := range []int{1000, 60000, 66000, 131072, 2100000} {
			for _, dc := range []int{1 << 16, 1 << 20} {
				for _, bs := range []int{273, 4096} {
					for ci, c := range corners {
						if !th && ci > 0 && (s > 0 || bs == 273) {
							continue
						}
						for m := 0; m < 2; m++ {
							if m == 1 && (dc > 1<<16 || (n > 131072 && !th)) {
								continue
							}
							api := "xz"
							if (s+ci)%2 == 1 {
								api = "lzma2"
							}
							cases = append(cases, C17Case{Family: "random", API: api, Seed: s, N: n, DictCap: dc, BufSize: bs, Matcher: m, Props: c})
						}
					}
				}
			}
		}
	}
	// dictionary capacities that are not powers of two, |X| = DictCap (index arithmetic of the match
	// finders' rings must not assume a power of two)
	for _, dc := range []int{98304, 100000, 5 << 20, 7 << 20} {
		for m := 0; m < 2; m++ {
			if m == 1 && dc > 100000 {
				continue // BinaryTree cost bound
			}
			cases = append(cases, C17Case{Family: "xx", API: "xz", Seed: 30, N: dc, DictCap: dc, Matcher: m, Props: def})
			cases = append(cases, C17Case{Family: "xx", API: "lzma2", Seed: 31, N: dc - dc/3, DictCap: dc, Matcher: m, Props: def})
		}
	}
	// X‖X across the 2 MiB uncompressed chunk limit (the chunk ends inside the second copy)
	for s := 0; s < 2; s++ {
		for m := 0; m < 2; m++ {
			api := "xz"
			if s == 1 {
				api = "lzma2"
			}
			cases = append(cases, C17Case{Family: "xx", API: api, Seed: 10 + s, N: 1300000, DictCap: 1 << 21, Matcher: m, Props: def})
		}
	}
	// a Flush between X and its copy / after the first bytes of a run (LZMA2 writer): the encoder is
	// drained once before the redundancy arrives
	for m := 0; m < 2; m++ {
		for s := 0; s < 2; s++ {
			for _, n := range []int{2000, 16384, 60000} {
				cases = append(cases, C17Case{Family: "xx", API: "lzma2", Seed: 20 + s, N: n, DictCap: 1 << 16, Matcher: m, Props: def, Flush: true})
			}
		}
		for _, b := range []int{0, 'a', 255} {
			n, dc := 300000, 1<<20
			if m == 1 {
				n, dc = 49152, 4096
			}
			cases = append(cases, C17Case{Family: "run", API: "lzma2", Byte: b, N: n, DictCap: dc, Matcher: m, Props: def, Flush: true})
		}
	}
	// the same bounds when the input is handed over in many small Write calls (a Write is not a Flush)
	for _, fr := range []int{250, 700, 4096} {
		for m := 0; m < 2; m++ {
			for _, api := range []string{"xz", "lzma2"} {
				if m == 0 {
					cases = append(cases, C17Case{Family: "run", API: api, Byte: 5, N: 300000, DictCap: 1 << 20, Props: def, Frag: fr})
				} else {
					cases = append(cases, C17Case{Family: "run", API: api, Byte: 5, N: 65536, DictCap: 4096, Matcher: 1, Props: def, Frag: fr})
				}
				cases = append(cases, C17Case{Family: "xx", API: api, Seed: 1, N: 30000, DictCap: 1 << 16, Matcher: m, Props: def, Frag: fr})
				cases = append(cases, C17Case{Family: "random", API: api, Seed: 2, N: 131072, DictCap: 1 << 16, BufSize: 4096, Matcher: m, Props: def, Frag: fr})
				if th || fr == 250 {
					cases = append(cases, C17Case{Family: "random", API: api, Seed: 3, N: 1 << 20, DictCap: 1 << 20, BufSize: 4096, Props: def, Frag: fr})
				}
			}
		}
	}
	r.Extra("grid_points", len(cases))
	r.Sample(cases[0])
	r.Sample(cases[len(cases)/2])
	r.Sample(cases[len(cases)-1])
	r.Parallel(len(cases), "grid", func(i int) { c17Case(r, cases[i]) })
	// the gxz tool on the same three kinds of input (its presets' dictionaries hold the whole input)
	if gxz := os.Getenv("VERIF_GXZ"); gxz != "" {
		gc := c17GxzCases()
		r.Parallel(len(gc), "gxz", func(i int) { c17GxzCase(r, gc[i], gxz) })
		r.Extra("gxz_runs", len(gc))
	} else {
		r.Note("gxz binary not available: tool-level cases skipped")
	}
	r.Assume("BinaryTree runs use a 4 KiB dictionary and lengths <= 65536 (quadratic matcher: cost bound)")
}
