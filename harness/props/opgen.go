package props

import (
	"fmt"
	"strings"

	"verif/ref"
)

// OpSym is a symbol of the operation alphabet; distances may be symbolic:
// Dist == -1 means "the whole window" (dist = pos).
type OpSym struct {
	K    ref.OpKind
	B    byte
	Len  int
	Dist int
}

func (s OpSym) String() string {
	switch s.K {
	case ref.OpLit:
		return fmt.Sprintf("lit(%02x)", s.B)
	case ref.OpMatch:
		if s.Dist < 0 {
			return fmt.Sprintf("match(%d,pos)", s.Len)
		}
		return fmt.Sprintf("match(%d,%d)", s.Len, s.Dist)
	case ref.OpShortRep:
		return "shortrep"
	case ref.OpEOS:
		return "eos"
	}
	return fmt.Sprintf("%s(%d)", s.K, s.Len)
}

func symsString(ss []OpSym) string {
	var p []string
	for _, s := range ss {
		p = append(p, s.String())
	}
	return strings.Join(p, " ")
}

// absState is the part of the coder state the format's guards depend on.
type absState struct {
	pos int
	rep [4]int // real distances (>=1); initial reps are distance 1
	st  int
}

func newAbs() absState { return absState{rep: [4]int{1, 1, 1, 1}} }

// step applies a symbol if the format allows it; returns the concrete op.
func (a *absState) step(s OpSym) (ref.Op, bool) {
	switch s.K {
	case ref.OpLit:
		a.pos++
		a.st = absLit(a.st)
		return ref.Op{Kind: ref.OpLit, Byte: s.B}, true
	case ref.OpMatch:
		d := s.Dist
		if d < 0 {
			d = a.pos
		}
		if d < 1 || d > a.pos {
			return ref.Op{}, false
		}
		a.rep = [4]int{d, a.rep[0], a.rep[1], a.rep[2]}
		a.pos += s.Len
		a.st = absMatch(a.st)
		return ref.Op{Kind: ref.OpMatch, Len: s.Len, Dist: uint32(d)}, true
	case ref.OpShortRep:
		if a.pos < 1 || a.rep[0] > a.pos {
			return ref.Op{}, false
		}
		a.pos++
		if a.st < 7 {
			a.st = 9
		} else {
			a.st = 11
		}
		return ref.Op{Kind: ref.OpShortRep}, true
	case ref.OpRep0, ref.OpRep1, ref.OpRep2, ref.OpRep3:
		i := int(s.K - ref.OpRep0)
		if a.pos < 1 || a.rep[i] > a.pos {
			return ref.Op{}, false
		}
		d := a.rep[i]
		switch i {
		case 1:
			a.rep[1] = a.rep[0]
		case 2:
			a.rep[2], a.rep[1] = a.rep[1], a.rep[0]
		case 3:
			a.rep[3], a.rep[2], a.rep[1] = a.rep[2], a.rep[1], a.rep[0]
		}
		a.rep[0] = d
		a.pos += s.Len
		if a.st < 7 {
			a.st = 8
		} else {
			a.st = 11
		}
		return ref.Op{Kind: s.K, Len: s.Len}, true
	}
	return ref.Op{}, false
}

func absLit(s int) int {
	if s < 4 {
		return 0
	}
	if s < 10 {
		return s - 3
	}
	return s - 6
}
func absMatch(s int) int {
	if s < 7 {
		return 7
	}
	return 10
}

// opAlphabet returns the operation alphabet. ext adds the distances that reach
// every distance-slot class and the window edge (useful after a fill prefix).
func opAlphabet(ext bool) []OpSym {
	var a []OpSym
	for _, b := range []byte{0x00, 'a', 0xFF} {
		a = append(a, OpSym{K: ref.OpLit, B: b})
	}
	lens := []int{2, 3, 9, 18, 273}
	dists := []int{1, 2, 5, -1}
	if ext {
		lens = []int{2, 10, 17, 273}
		dists = []int{1, 4, 96, 127, 128, 129, 4095, 4096, -1}
	}
	for _, l := range lens {
		for _, d := range dists {
			a = append(a, OpSym{K: ref.OpMatch, Len: l, Dist: d})
		}
	}
	a = append(a, OpSym{K: ref.OpRep0, Len: 2}, OpSym{K: ref.OpRep0, Len: 273}, OpSym{K: ref.OpShortRep},
		OpSym{K: ref.OpRep1, Len: 2}, OpSym{K: ref.OpRep2, Len: 2}, OpSym{K: ref.OpRep3, Len: 2})
	return a
}

// fillPrefix returns symbols that bring the window to exactly n bytes with
// four distinct rep distances established ("start from non-initial states").
func fillPrefix(n int) []OpSym {
	if n == 0 {
		return nil
	}
	p := []OpSym{{K: ref.OpLit, B: 'x'}, {K: ref.OpLit, B: 'y'}, {K: ref.OpLit, B: 'z'}, {K: ref.OpLit, B: 0}, {K: ref.OpLit, B: 'w'}}
	pos := 5
	// establish reps 4,3,2,1 ... by matches of different distances
	for _, d := range []int{4, 3, 2} {
		if pos+2 <= n-2 {
			p = append(p, OpSym{K: ref.OpMatch, Len: 2, Dist: d})
			pos += 2
		}
	}
	for pos < n {
		l := n - pos
		if l > 273 {
			l = 273
		}
		if l == 1 {
			p = append(p, OpSym{K: ref.OpLit, B: 'q'})
			pos++
			continue
		}
		if n-pos-l == 1 { // avoid a dangling single byte needing a literal at the very end
			l--
		}
		p = append(p, OpSym{K: ref.OpMatch, Len: l, Dist: 5})
		pos += l
	}
	return p
}

// enumSyms calls f for every legal symbol sequence of exactly depth symbols
// after the prefix (f receives the concrete ops of prefix+suffix and the suffix symbols).
func enumSyms(prefix []OpSym, alpha []OpSym, depth int, f func(ops []ref.Op, suffix []OpSym)) {
	a := newAbs()
	var base []ref.Op
	for _, s := range prefix {
		op, ok := a.step(s)
		if !ok {
			panic("illegal prefix symbol " + s.String())
		}
		base = append(base, op)
	}
	var rec func(a absState, ops []ref.Op, suf []OpSym)
	rec = func(a absState, ops []ref.Op, suf []OpSym) {
		if len(suf) == depth {
			f(append([]ref.Op(nil), ops...), append([]OpSym(nil), suf...))
			return
		}
		for _, s := range alpha {
			b := a
			op, ok := b.step(s)
			if !ok {
				continue
			}
			rec(b, append(ops, op), append(suf, s))
		}
	}
	rec(a, base, nil)
}

// encodeOpsXZ wraps ops into a single-chunk LZMA2 stream inside an .xz container.
func encodeOpsLZMA2(ops []ref.Op, p ref.Props) (lz2 []byte, plain []byte, err error) {
	g := ref.NewLZMA2Gen()
	// split into chunks of at most 2 MiB plaintext / 64 KiB compressed is not needed for the small sequences used here
	if _, err = g.Add(ref.ChunkSpec{Kind: ref.CLZMAFull, Ops: ops, Props: p}); err != nil {
		return nil, nil, err
	}
	g.Add(ref.ChunkSpec{Kind: ref.CEnd})
	return g.Out, g.Plain, nil
}

// longWalk is a fixed (seeded, deterministic) walk of n legal operations over a wide alphabet:
// literals from a 20-value set, matches of every length class at distances of every slot class up
// to the current position, rep0..rep3 of various lengths, short reps. Like the generator output
// R(s, n) it is a constant of the alphabet: eight such sequences (seeds 0..7) bring every adaptive
// context of the coder - literal sub-coders, length trees, distance slots, align bits, rep choices
// per position state - into a trained state, which short enumerated sequences cannot.
func longWalk(seed, n int) []ref.Op {
	x := xorshift(0xD6E8FEB86659FD93 ^ uint64(seed+11)*0x9E3779B97F4A7C15)
	a := newAbs()
	var ops []ref.Op
	lits := []byte{0, 1, 2, 0x1f, 0x20, 'a', 'b', 'c', 'e', 't', 'A', 'Z', 0x7f, 0x80, 0x81, 0xc3, 0xe0, 0xfe, 0xff, '\n'}
	lens := []int{2, 2, 3, 3, 4, 5, 6, 7, 8, 9, 10, 11, 15, 17, 18, 19, 30, 64, 100, 272, 273}
	for len(ops) < n {
		v := x.next()
		var s OpSym
		switch k := v % 16; {
		case k < 6 || a.pos < 2:
			s = OpSym{K: ref.OpLit, B: lits[(v>>8)%uint64(len(lits))]}
		case k < 10:
			// distance classes: 1..4, small, mid, large, the whole window
			d := 1
			switch (v >> 16) % 6 {
			case 0:
				d = 1 + int((v>>24)%4)
			case 1:
				d = 1 + int((v>>24)%128)
			case 2:
				d = 1 + int((v>>24)%2048)
			case 3:
				d = 1 + int((v>>24)%65536)
			case 4:
				d = a.pos
			case 5:
				d = a.pos - int((v>>24)%4)
			}
			if d > a.pos {
				d = 1 + d%a.pos
			}
			if d < 1 {
				d = 1
			}
			s = OpSym{K: ref.OpMatch, Len: lens[(v>>8)%uint64(len(lens))], Dist: d}
		case k < 12:
			s = OpSym{K: ref.OpRep0, Len: lens[(v>>8)%uint64(len(lens))]}
		case k == 12:
			s = OpSym{K: ref.OpShortRep}
		case k == 13:
			s = OpSym{K: ref.OpRep1, Len: lens[(v>>8)%12]}
		case k == 14:
			s = OpSym{K: ref.OpRep2, Len: lens[(v>>8)%12]}
		default:
			s = OpSym{K: ref.OpRep3, Len: lens[(v>>8)%12]}
		}
		b := a
		op, ok := b.step(s)
		if !ok {
			continue
		}
		a = b
		ops = append(ops, op)
	}
	return ops
}
