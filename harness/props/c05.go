package props

import (
	"bytes"
	"fmt"
	"io"

	"verif/core"
	"verif/ref"
)

// C05 — every proper prefix of a valid stream must end in an error other than
// end-of-stream; delivered bytes are a prefix of the original content.

type CutCase struct {
	Stream string
	Level  int // -2: long stream family (DictCap 4096, 16 KiB caller buffer)
	Cut    int
	// Src: kind of source the reader is given (see sourceOf in envkinds.go)
	Src int `json:",omitempty"`
	// Drain: how the caller takes the data out (see drainOf): 0 Read loop, 1 / 2 io.Copy
	Drain int `json:",omitempty"`
}

func init() {
	register(&Check{ID: "C05", Level: "fault_enumeration", Run: runC05})
	scenario("C05", "cut", func(r *core.Run, c core.Case) {
		var p CutCase
		params(c, &p)
		ss := longStreams()
		if p.Level >= 0 {
			ss = readerStreams(p.Level)
		}
		if p.Level == -3 {
			ss = finalOpStreams()
		}
		if p.Level == -4 {
			ss = libPrefixStreams()
		}
		if p.Level == -5 {
			ss = walkStreams()
		}
		for _, s := range ss {
			if s.Name == p.Stream {
				c05Cut(r, s, p.Level, p.Cut, newSiteMap(s), p.Src, p.Drain)
			}
		}
	})
}

// siteMap names the structure a byte offset belongs to.
type siteMap struct {
	names []string
}

func newSiteMap(s Stream) *siteMap {
	m := &siteMap{names: make([]string, len(s.Data)+1)}
	fill := func(off, n int, name string) {
		for i := off; i < off+n && i < len(m.names); i++ {
			m.names[i] = name
		}
	}
	chunks := func(base int, cs []ref.ChunkInfo) {
		for _, c := range cs {
			fill(base+c.Offset, c.HeaderLen, "chunk-header("+c.Kind.String()+")")
			if c.Compressed > 0 {
				fill(base+c.Offset+c.HeaderLen, minInt(5, c.Compressed), "rc-init")
				fill(base+c.Offset+c.HeaderLen+5, c.Compressed-5, "lzma-payload")
			} else if c.Kind != ref.CEnd {
				fill(base+c.Offset+c.HeaderLen, c.Uncompressed, "raw-payload")
			}
		}
	}
	switch s.Fmt {
	case "xz":
		x := ref.DecodeXZ(s.Data, ref.XZOptions{})
		for _, f := range x.Fields {
			if f.Name == "block.data" {
				continue
			}
			fill(f.Off, f.Len, f.Name)
		}
		for _, st := range x.Streams {
			for _, b := range st.Blocks {
				chunks(b.DataOff, b.Chunks)
			}
		}
	case "lzma2":
		x := ref.DecodeLZMA2(s.Data, s.DictSize, false)
		chunks(0, x.Chunks)
	case "lzma":
		fill(0, 13, "header")
		fill(13, 5, "rc-init")
		fill(18, len(s.Data), "lzma-payload")
	}
	for i := range m.names {
		if m.names[i] == "" {
			m.names[i] = "end"
		}
	}
	return m
}

// at names the site of a cut at offset k: the structure of the first missing byte.
func (m *siteMap) at(k int) string { return m.names[k] }

func c05Cut(r *core.Run, s Stream, level, cut int, sm *siteMap, srcKind ...int) {
	src, drain := 0, 0
	if len(srcKind) > 0 {
		src = srcKind[0]
	}
	if len(srcKind) > 1 {
		drain = srcKind[1]
	}
	cs := core.MkCase("C05", "cut", CutCase{Stream: s.Name, Level: level, Cut: cut, Src: src, Drain: drain})
	var out []byte
	var err error
	var proto string
	var pan *core.PanicInfo
	switch {
	case src != 0 || drain != 0:
		pan = core.Guard(func() {
			source := sourceOf(src, s.Data[:cut])
			if c, ok := source.(io.Closer); ok {
				defer c.Close()
			}
			rd, e := openReaderDict(s.Fmt, source, 0)
			if e != nil {
				err = e
				return
			}
			out, err, proto = drainOf(rd, drain, 4096, 256<<20)
		})
	case level == -2:
		out, err, proto, pan = libDecodeBuf(s.Fmt, s.Data[:cut], 4096, 16384)
	default:
		out, err, proto, pan = libDecode(s.Fmt, s.Data[:cut], 0)
	}
	site := fmt.Sprintf("%s cut@%s", s.Fmt, sm.at(cut))
	desc := fmt.Sprintf("stream %s (%d bytes, written by %s) cut to %d bytes", s.Name, len(s.Data), s.Writer, cut)
	if src != 0 {
		site += fmt.Sprintf(" (source kind %d)", src)
		desc += fmt.Sprintf(", source: %s", sourceKindNames[src])
	}
	if drain != 0 {
		site += fmt.Sprintf(" (drain mode %d)", drain)
		desc += fmt.Sprintf(", drained by %s", drainModeNames[drain])
	}
	cls := errClass(err)
	switch {
	case pan != nil:
		r.Violate(cs, site+" → panic@"+pan.Site(), desc, pan.Value+" | "+pan.Stack, "an error other than io.EOF")
		cls = "panic"
	case proto != "":
		r.Violate(cs, site+" → protocol", desc, proto, "an error other than io.EOF")
	case err == nil:
		r.Violate(cs, site+" → no-error", desc, "nil", "an error other than io.EOF")
	case cls == "EOF":
		r.Violate(cs, site+" → clean-EOF", desc, fmt.Sprintf("%d bytes then io.EOF", len(out)), "an error other than io.EOF")
	}
	if !bytes.HasPrefix(s.Plain, out) {
		r.Violate(cs, site+" → non-prefix-output", desc, fmt.Sprintf("%d bytes, first difference at %d", len(out), firstDiff(out, s.Plain)), "a prefix of the original content")
	}
	h := core.Hash(s.Name, cls, len(out), src, drain)
	r.Eval(h)
	// non-trivial: the outcome class differs from the previous offset's (counted via distinct (stream, class, delivered) triples)
	r.Nontrivial(h)
}

func runC05(r *core.Run) {
	bindRef(r)
	level := 1 // both tiers: the full base menu
	r.Rule = "for each base stream (.xz 1-3 blocks all checks, multi-chunk, size fields; raw LZMA2 with flushes/raw chunks/all chunk kinds; .lzma in three termination modes; library-, reference- and liblzma-written; 300 small reference-written streams ending in each kind of LZMA operation; 378 library-written .lzma streams for every prefix of a text in the three termination modes) EVERY proper prefix is decoded with the library reader (the base menu through nine kinds of source - bytes.Reader, bufio.Reader with 16-byte and default buffer, bare readers with 1-byte / half / full reads and with the last bytes delivered together with io.EOF, bytes.Buffer, a Read+ReadByte-only source - and drained by Read calls as well as by io.Copy); multi-stream: every cut except stream/4-byte padding boundaries. non-trivial = distinct (stream, outcome class, bytes delivered) triples"
	streams := readerStreams(level)
	{
		lim := 1500 // quick: the small liblzma-written files of the frozen corpus; thorough: up to 20 KB
		if thorough(r) {
			lim = 20000
		}
		for _, e := range bindRef(nil) {
			if len(e.Data) > lim || len(e.Data) == 0 {
				continue
			}
			f := "xz"
			var ds uint32
			switch {
			case e.Kind == "lzma":
				f = "lzma"
			case e.Kind != "xz":
				f = "lzma2"
				ds = 65536
			}
			if e.File[:5] == "multi" {
				continue
			}
			streams = append(streams, Stream{Name: "corpus:" + e.File, Fmt: f, Data: e.Data, Plain: e.Plain, DictSize: ds, Writer: "liblzma"})
		}
	}
	type job struct {
		s   Stream
		cut int
		sm  *siteMap
		lvl int
		src int
		drn int
	}
	var jobs []job
	for _, s := range longStreams() {
		sm := newSiteMap(s)
		for k := 0; k < len(s.Data); k++ {
			jobs = append(jobs, job{s, k, sm, -2, 0, 0})
		}
		r.Trace(1)
	}
	for _, s := range finalOpStreams() {
		sm := newSiteMap(s)
		for k := 0; k < len(s.Data); k++ {
			jobs = append(jobs, job{s, k, sm, -3, 0, 0})
		}
		r.Trace(1)
	}
	for _, s := range walkStreams() {
		sm := newSiteMap(s)
		for k := 0; k < len(s.Data); k++ {
			jobs = append(jobs, job{s, k, sm, -5, 0, 0})
		}
		r.Trace(1)
	}
	for _, s := range libPrefixStreams() {
		sm := newSiteMap(s)
		// the header and the first bytes are covered by the other families: cuts in the second half
		for k := len(s.Data) / 2; k < len(s.Data); k++ {
			jobs = append(jobs, job{s, k, sm, -4, 0, 0})
		}
		r.Trace(1)
	}
	for _, s := range streams {
		sm := newSiteMap(s)
		for k := 0; k < len(s.Data); k++ {
			if s.ValidCuts[k] {
				continue
			}
			jobs = append(jobs, job{s, k, sm, level, 0, 0})
			if len(s.Name) < 7 || s.Name[:7] != "corpus:" {
				// the base menu also through every other kind of source, and drained with io.Copy
				for src := 1; src < nSourceKinds; src++ {
					jobs = append(jobs, job{s, k, sm, level, src, 0})
				}
				jobs = append(jobs, job{s, k, sm, level, 0, 1}, job{s, k, sm, level, 5, 2})
			}
		}
		r.Trace(1)
	}
	r.Extra("streams", len(streams))
	r.Extra("cuts", len(jobs))
	r.Sample(map[string]interface{}{"stream": streams[1].Name, "len": len(streams[1].Data), "cuts": "0.." + fmt.Sprint(len(streams[1].Data)-1)})
	r.Sample(map[string]interface{}{"stream": streams[len(streams)-1].Name, "cut": 14})
	r.Parallel(len(jobs), "cuts", func(i int) {
		j := jobs[i]
		lvl := j.lvl
		if len(j.s.Name) > 7 && j.s.Name[:7] == "corpus:" {
			lvl = -1
		}
		c05Cut(r, j.s, lvl, j.cut, j.sm, j.src, j.drn)
	})
	r.Assume("corpus-stream cases are replayable only by name from the frozen corpus (scenario 'cut' resolves base streams; corpus cuts are reported with file name and offset)")
}
