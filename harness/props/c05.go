package props

import (
	"bufio"
	"bytes"
	"fmt"
	"io"

	"verif/core"
	"verif/ref"
)

// C05 — every proper prefix of a valid stream must end in an error other than
// end-of-stream; delivered bytes are a prefix of the original content.

type CutCase struct {
	Stream string
	Level  int // -2: long stream family (DictCap 4096, 16 KiB caller buffer)
	Cut    int
	// Src: kind of source the reader is given. 0: *bytes.Reader; 1: *bufio.Reader with the smallest
	// buffer (16 bytes); 2: *bufio.Reader with the default buffer (what gxz passes); 3: a plain
	// io.Reader without any further method that hands out one byte per call
	Src int `json:",omitempty"`
}

// plainSource is an io.Reader and nothing else (no ReadByte, Peek, WriteTo, ...).
type plainSource struct {
	data []byte
	step int
}

func (p *plainSource) Read(b []byte) (int, error) {
	if len(p.data) == 0 {
		return 0, io.EOF
	}
	n := p.step
	if n > len(b) {
		n = len(b)
	}
	if n > len(p.data) {
		n = len(p.data)
	}
	copy(b, p.data[:n])
	p.data = p.data[n:]
	return n, nil
}

func c05Source(kind int, data []byte) io.Reader {
	switch kind {
	case 1:
		return bufio.NewReaderSize(bytes.NewReader(data), 16)
	case 2:
		return bufio.NewReader(bytes.NewReader(data))
	case 3:
		return &plainSource{data: data, step: 1}
	}
	return bytes.NewReader(data)
}

func init() {
	register(&Check{ID: "C05", Level: "fault_enumeration", Run: runC05})
	scenario("C05", "cut", func(r *core.Run, c core.Case) {
		var p CutCase
		params(c, &p)
		ss := longStreams()
		if p.Level >= 0 {
			ss = readerStreams(p.Level)
		}
		if p.Level == -3 {
			ss = finalOpStreams()
		}
		if p.Level == -4 {
			ss = libPrefixStreams()
		}
		if p.Level == -5 {
			ss = walkStreams()
		}
		for _, s := range ss {
			if s.Name == p.Stream {
				c05Cut(r, s, p.Level, p.Cut, newSiteMap(s), p.Src)
			}
		}
	})
}

// siteMap names the structure a byte offset belongs to.
type siteMap struct {
	names []string
}

func newSiteMap(s Stream) *siteMap {
	m := &siteMap{names: make([]string, len(s.Data)+1)}
	fill := func(off, n int, name string) {
		for i := off; i < off+n && i < len(m.names); i++ {
			m.names[i] = name
		}
	}
	chunks := func(base int, cs []ref.ChunkInfo) {
		for _, c := range cs {
			fill(base+c.Offset, c.HeaderLen, "chunk-header("+c.Kind.String()+")")
			if c.Compressed > 0 {
				fill(base+c.Offset+c.HeaderLen, minInt(5, c.Compressed), "rc-init")
				fill(base+c.Offset+c.HeaderLen+5, c.Compressed-5, "lzma-payload")
			} else if c.Kind != ref.CEnd {
				fill(base+c.Offset+c.HeaderLen, c.Uncompressed, "raw-payload")
			}
		}
	}
	switch s.Fmt {
	case "xz":
		x := ref.DecodeXZ(s.Data, ref.XZOptions{})
		for _, f := range x.Fields {
			if f.Name == "block.data" {
				continue
			}
			fill(f.Off, f.Len, f.Name)
		}
		for _, st := range x.Streams {
			for _, b := range st.Blocks {
				chunks(b.DataOff, b.Chunks)
			}
		}
	case "lzma2":
		x := ref.DecodeLZMA2(s.Data, s.DictSize, false)
		chunks(0, x.Chunks)
	case "lzma":
		fill(0, 13, "header")
		fill(13, 5, "rc-init")
		fill(18, len(s.Data), "lzma-payload")
	}
	for i := range m.names {
		if m.names[i] == "" {
			m.names[i] = "end"
		}
	}
	return m
}

// at names the site of a cut at offset k: the structure of the first missing byte.
func (m *siteMap) at(k int) string { return m.names[k] }

func c05Cut(r *core.Run, s Stream, level, cut int, sm *siteMap, srcKind ...int) {
	src := 0
	if len(srcKind) > 0 {
		src = srcKind[0]
	}
	cs := core.MkCase("C05", "cut", CutCase{Stream: s.Name, Level: level, Cut: cut, Src: src})
	var out []byte
	var err error
	var proto string
	var pan *core.PanicInfo
	switch {
	case src != 0:
		pan = core.Guard(func() {
			rd, e := openReaderDict(s.Fmt, c05Source(src, s.Data[:cut]), 0)
			if e != nil {
				err = e
				return
			}
			out, err, proto = readAll(rd, 4096, 256<<20)
		})
	case level == -2:
		out, err, proto, pan = libDecodeBuf(s.Fmt, s.Data[:cut], 4096, 16384)
	default:
		out, err, proto, pan = libDecode(s.Fmt, s.Data[:cut], 0)
	}
	site := fmt.Sprintf("%s cut@%s", s.Fmt, sm.at(cut))
	desc := fmt.Sprintf("stream %s (%d bytes, written by %s) cut to %d bytes", s.Name, len(s.Data), s.Writer, cut)
	if src != 0 {
		site += fmt.Sprintf(" (source kind %d)", src)
		desc += fmt.Sprintf(", source kind %d (1: bufio 16 bytes, 2: bufio default, 3: bare io.Reader byte by byte)", src)
	}
	cls := errClass(err)
	switch {
	case pan != nil:
		r.Violate(cs, site+" → panic@"+pan.Site(), desc, pan.Value+" | "+pan.Stack, "an error other than io.EOF")
		cls = "panic"
	case proto != "":
		r.Violate(cs, site+" → protocol", desc, proto, "an error other than io.EOF")
	case err == nil:
		r.Violate(cs, site+" → no-error", desc, "nil", "an error other than io.EOF")
	case cls == "EOF":
		r.Violate(cs, site+" → clean-EOF", desc, fmt.Sprintf("%d bytes then io.EOF", len(out)), "an error other than io.EOF")
	}
	if !bytes.HasPrefix(s.Plain, out) {
		r.Violate(cs, site+" → non-prefix-output", desc, fmt.Sprintf("%d bytes, first difference at %d", len(out), firstDiff(out, s.Plain)), "a prefix of the original content")
	}
	h := core.Hash(s.Name, cls, len(out), src)
	r.Eval(h)
	// non-trivial: the outcome class differs from the previous offset's (counted via distinct (stream, class, delivered) triples)
	r.Nontrivial(h)
}

func runC05(r *core.Run) {
	bindRef(r)
	level := 1 // both tiers: the full base menu
	r.Rule = "for each base stream (.xz 1-3 blocks all checks, multi-chunk, size fields; raw LZMA2 with flushes/raw chunks/all chunk kinds; .lzma in three termination modes; library-, reference- and liblzma-written; 300 small reference-written streams ending in each kind of LZMA operation; 378 library-written .lzma streams for every prefix of a text in the three termination modes) EVERY proper prefix is decoded with the library reader (the base menu through four kinds of source: bytes.Reader, bufio.Reader with 16-byte and default buffer, bare io.Reader handing out single bytes); multi-stream: every cut except stream/4-byte padding boundaries. non-trivial = distinct (stream, outcome class, bytes delivered) triples"
	streams := readerStreams(level)
	{
		lim := 1500 // quick: the small liblzma-written files of the frozen corpus; thorough: up to 20 KB
		if thorough(r) {
			lim = 20000
		}
		for _, e := range bindRef(nil) {
			if len(e.Data) > lim || len(e.Data) == 0 {
				continue
			}
			f := "xz"
			var ds uint32
			switch {
			case e.Kind == "lzma":
				f = "lzma"
			case e.Kind != "xz":
				f = "lzma2"
				ds = 65536
			}
			if e.File[:5] == "multi" {
				continue
			}
			streams = append(streams, Stream{Name: "corpus:" + e.File, Fmt: f, Data: e.Data, Plain: e.Plain, DictSize: ds, Writer: "liblzma"})
		}
	}
	type job struct {
		s   Stream
		cut int
		sm  *siteMap
		lvl int
		src int
	}
	var jobs []job
	for _, s := range longStreams() {
		sm := newSiteMap(s)
		for k := 0; k < len(s.Data); k++ {
			jobs = append(jobs, job{s, k, sm, -2, 0})
		}
		r.Trace(1)
	}
	for _, s := range finalOpStreams() {
		sm := newSiteMap(s)
		for k := 0; k < len(s.Data); k++ {
			jobs = append(jobs, job{s, k, sm, -3, 0})
		}
		r.Trace(1)
	}
	for _, s := range walkStreams() {
		sm := newSiteMap(s)
		for k := 0; k < len(s.Data); k++ {
			jobs = append(jobs, job{s, k, sm, -5, 0})
		}
		r.Trace(1)
	}
	for _, s := range libPrefixStreams() {
		sm := newSiteMap(s)
		// the header and the first bytes are covered by the other families: cuts in the second half
		for k := len(s.Data) / 2; k < len(s.Data); k++ {
			jobs = append(jobs, job{s, k, sm, -4, 0})
		}
		r.Trace(1)
	}
	for _, s := range streams {
		sm := newSiteMap(s)
		for k := 0; k < len(s.Data); k++ {
			if s.ValidCuts[k] {
				continue
			}
			jobs = append(jobs, job{s, k, sm, level, 0})
			if len(s.Name) < 7 || s.Name[:7] != "corpus:" {
				// the base menu also through buffered and bare sources
				for src := 1; src <= 3; src++ {
					jobs = append(jobs, job{s, k, sm, level, src})
				}
			}
		}
		r.Trace(1)
	}
	r.Extra("streams", len(streams))
	r.Extra("cuts", len(jobs))
	r.Sample(map[string]interface{}{"stream": streams[1].Name, "len": len(streams[1].Data), "cuts": "0.." + fmt.Sprint(len(streams[1].Data)-1)})
	r.Sample(map[string]interface{}{"stream": streams[len(streams)-1].Name, "cut": 14})
	r.Parallel(len(jobs), "cuts", func(i int) {
		j := jobs[i]
		lvl := j.lvl
		if len(j.s.Name) > 7 && j.s.Name[:7] == "corpus:" {
			lvl = -1
		}
		c05Cut(r, j.s, lvl, j.cut, j.sm, j.src)
	})
	r.Assume("corpus-stream cases are replayable only by name from the frozen corpus (scenario 'cut' resolves base streams; corpus cuts are reported with file name and offset)")
}
