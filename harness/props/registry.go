// Package props holds one file per property: alphabet, bound and oracle.
package props

import (
	"encoding/json"
	"fmt"
	"sort"

	"verif/core"
)

// Check is the entry point of a property.
type Check struct {
	ID    string
	Level string
	Run   func(r *core.Run)
}

// Scenario re-executes a single case (used by the explorer and by replay).
type Scenario func(r *core.Run, c core.Case)

var checks = map[string]*Check{}
var scenarios = map[string]Scenario{}

func register(c *Check) { checks[c.ID] = c }

func scenario(prop, name string, f Scenario) {
	scenarios[prop+"/"+name] = f
}

// Get returns the check for an id.
func Get(id string) *Check { return checks[id] }

// IDs lists the registered checks.
func IDs() []string {
	var s []string
	for k := range checks {
		s = append(s, k)
	}
	sort.Strings(s)
	return s
}

// RunCase dispatches one case to its scenario.
func RunCase(r *core.Run, c core.Case) error {
	f, ok := scenarios[c.Property+"/"+c.Scenario]
	if !ok {
		return fmt.Errorf("unknown scenario %s/%s", c.Property, c.Scenario)
	}
	f(r, c)
	return nil
}

func params(c core.Case, v interface{}) {
	if err := json.Unmarshal(c.Params, v); err != nil {
		panic(fmt.Sprintf("bad params for %s/%s: %v", c.Property, c.Scenario, err))
	}
}

func thorough(r *core.Run) bool { return r.Tier == "thorough" }
