// Command vrace is the free-running pass of C14: the same bodies on real
// goroutines; build with -race.
package main

import (
	"fmt"
	"os"

	"verif/props"
)

func main() {
	if len(os.Args) > 2 && os.Args[1] == "cold" {
		var k int
		fmt.Sscan(os.Args[2], &k)
		if props.C14ColdMain(k) > 0 {
			os.Exit(1)
		}
		return
	}
	bad := props.C14RaceMain(6)
	fmt.Println("vrace done, differing results:", bad)
	if bad > 0 {
		os.Exit(1)
	}
}
