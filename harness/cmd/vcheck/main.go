// Command vcheck runs one property check or replays one recorded case.
//
//	vcheck <ID> [--tier quick|thorough]
//	vcheck replay <file>
package main

import (
	"encoding/json"
	"fmt"
	"os"
	"strconv"
	"time"

	"verif/core"
	"verif/props"
	"verif/sysx"
)

func main() {
	if len(os.Args) < 2 {
		fmt.Fprintln(os.Stderr, "usage: vcheck <ID> [--tier quick|thorough] | vcheck replay <file> | vcheck list")
		os.Exit(2)
	}
	switch os.Args[1] {
	case "sysx-worker":
		sysx.WorkerMain()
		return
	case "c14-seq":
		os.Exit(props.C14SeqMain(os.Args[2:]))
	case "c14-props":
		os.Exit(props.C14PropsMain(os.Args[2:]))
	case "list":
		for _, id := range props.IDs() {
			fmt.Println(id)
		}
		return
	case "replay":
		if len(os.Args) < 3 {
			os.Exit(2)
		}
		b, err := os.ReadFile(os.Args[2])
		if err != nil {
			fmt.Fprintln(os.Stderr, err)
			os.Exit(2)
		}
		var v core.Violation
		if err := json.Unmarshal(b, &v); err != nil {
			fmt.Fprintln(os.Stderr, err)
			os.Exit(2)
		}
		r := core.NewRun(v.Case.Property, "quick", 0, "exploration")
		r.Replay = true
		r.Workers = 1
		if v.Case.Scenario == "index" {
			// a case identified by its position in a deterministic enumeration: run the
			// check restricted to that index
			var ic core.IndexCase
			if err := json.Unmarshal(v.Case.Params, &ic); err != nil {
				fmt.Fprintln(os.Stderr, err)
				os.Exit(2)
			}
			c := props.Get(v.Case.Property)
			if c == nil {
				os.Exit(2)
			}
			r.Tier, r.OnlyWhat, r.OnlyIndex = ic.Tier, ic.What, ic.Index
			c.Run(r)
			code := r.Finish()
			if code == 0 {
				fmt.Println("replay: case passes")
			}
			os.Exit(code)
		}
		if err := props.RunCase(r, v.Case); err != nil {
			fmt.Fprintln(os.Stderr, err)
			os.Exit(2)
		}
		code := r.Finish()
		if code == 0 {
			fmt.Println("replay: case passes")
		}
		os.Exit(code)
	}
	id := os.Args[1]
	tier := os.Getenv("VERIF_TIER")
	for i := 2; i < len(os.Args); i++ {
		if os.Args[i] == "--tier" && i+1 < len(os.Args) {
			tier = os.Args[i+1]
		}
	}
	if tier != "thorough" {
		tier = "quick"
	}
	var seed int64
	if s := os.Getenv("VERIF_SEED"); s != "" {
		seed, _ = strconv.ParseInt(s, 10, 64)
	}
	c := props.Get(id)
	if c == nil {
		fmt.Fprintf(os.Stderr, "unknown check %s\n", id)
		os.Exit(2)
	}
	if err := core.SelfTestMC(); err != nil {
		fmt.Fprintln(os.Stderr, err)
		os.Exit(2)
	}
	r := core.NewRun(id, tier, seed, c.Level)
	if tier == "thorough" {
		r.SetBudget(25 * time.Minute)
	} else {
		r.SetBudget(300 * time.Second) // the quick tiers take 5-70 s on an idle 16-core machine; the margin is for a loaded one
	}
	c.Run(r)
	os.Exit(r.Finish())
}
