#!/usr/bin/env python3
"""Third, additive corpus generation (run once; output committed; appends to MANIFEST.json):
every dictionary size that the formats can announce up to 48 MiB - .lzma (FORMAT_ALONE) headers
with 2^n and 2^n+2^(n-1), .xz block headers with dictionary codes 0..27 - written by liblzma,
with a small payload; plus .lzma files with lp > pb and lc+lp = 4 corner properties."""
import lzma, hashlib, json, os, random
out = os.path.dirname(os.path.abspath(__file__))
rng = random.Random(4242)
def text(n):
    words = [b"alpha", b"beta", b"gamma", b"delta", b"the", b"of", b"and", b"xz", b"lzma", b"\n", b" "]
    b = bytearray()
    while len(b) < n: b += rng.choice(words) + b" "
    return bytes(b[:n])
man = json.load(open(os.path.join(out, "MANIFEST.json")))
have = {m["file"] for m in man}
def add(name, data, plain, kind):
    if name in have: return
    assert lzma.decompress(data) == plain
    open(os.path.join(out, name), "wb").write(data)
    man.append({"file": name, "kind": kind, "sha256": hashlib.sha256(plain).hexdigest(), "len": len(plain)})
base = text(300)
plain = base + base[:100] + b"\0" * 20
sizes = []
for n in range(12, 26):
    sizes += [1 << n, (1 << n) + (1 << (n - 1))]
for d in sizes:
    f1 = [{"id": lzma.FILTER_LZMA1, "dict_size": d, "mode": lzma.MODE_FAST, "mf": lzma.MF_HC3, "nice_len": 32}]
    add(f"dict-alone-d{d}.lzma", lzma.compress(plain, format=lzma.FORMAT_ALONE, filters=f1), plain, "lzma")
    f2 = [{"id": lzma.FILTER_LZMA2, "dict_size": d, "mode": lzma.MODE_FAST, "mf": lzma.MF_HC3, "nice_len": 32}]
    add(f"dict-crc32-d{d}.xz", lzma.compress(plain, format=lzma.FORMAT_XZ, check=lzma.CHECK_CRC32, filters=f2), plain, "xz")
for lc, lp, pb in [(1, 3, 1), (0, 4, 0), (2, 2, 0), (0, 3, 2), (4, 0, 0), (1, 2, 4)]:
    f1 = [{"id": lzma.FILTER_LZMA1, "dict_size": 1 << 16, "lc": lc, "lp": lp, "pb": pb}]
    big = text(6000)
    add(f"text6k-alone-lc{lc}lp{lp}pb{pb}.lzma", lzma.compress(big, format=lzma.FORMAT_ALONE, filters=f1), big, "lzma")
    f2 = [{"id": lzma.FILTER_LZMA2, "dict_size": 1 << 16, "lc": lc, "lp": lp, "pb": pb}]
    add(f"text6k-crc64-lc{lc}lp{lp}pb{pb}.xz", lzma.compress(big, format=lzma.FORMAT_XZ, filters=f2), big, "xz")
json.dump(man, open(os.path.join(out, "MANIFEST.json"), "w"), indent=0)
print(len(man), "files", sum(os.path.getsize(os.path.join(out, m["file"])) for m in man), "bytes")
