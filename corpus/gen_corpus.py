#!/usr/bin/env python3
"""Generates the frozen corpus with liblzma (python's lzma module) and the xz binary.
Run once; the output is committed. Inputs are deterministic."""
import lzma, hashlib, json, os, subprocess, random, sys
out = os.path.dirname(os.path.abspath(__file__))
rng = random.Random(12345)
def rnd(n): return bytes(rng.getrandbits(8) for _ in range(n))
def text(n):
    words = [b"alpha", b"beta", b"gamma", b"delta", b"the", b"of", b"and", b"xz", b"lzma", b"\n", b" "]
    b = bytearray()
    while len(b) < n: b += rng.choice(words) + b" "
    return bytes(b[:n])
inputs = {
 "empty": b"", "one": b"a", "zero1": b"\0", "abc": b"abcabcabcabc",
 "zeros5000": b"\0"*5000, "text3000": text(3000), "rnd2000": rnd(2000),
 "mix": b"\0"*300 + text(1500) + rnd(700) + text(1500)[:900] + b"\xff"*600,
 "text70000": text(70000), "rep": (rnd(64)*200),
}
man = []
def add(name, data, plain, kind):
    open(os.path.join(out, name), "wb").write(data)
    man.append({"file": name, "kind": kind, "sha256": hashlib.sha256(plain).hexdigest(), "len": len(plain)})
checks = {"none": lzma.CHECK_NONE, "crc32": lzma.CHECK_CRC32, "crc64": lzma.CHECK_CRC64, "sha256": lzma.CHECK_SHA256}
props = [(3,0,2),(0,0,0),(4,0,4),(0,4,0),(2,2,1),(1,3,3)]
dicts = [4096, 65536, 1<<20]
i = 0
for iname, data in inputs.items():
    for ck, cv in checks.items():
        lc,lp,pb = props[i % len(props)]; ds = dicts[i % len(dicts)]; i += 1
        f = [{"id": lzma.FILTER_LZMA2, "lc": lc, "lp": lp, "pb": pb, "dict_size": ds, "mode": lzma.MODE_FAST if i%2 else lzma.MODE_NORMAL}]
        add(f"{iname}-{ck}-lc{lc}lp{lp}pb{pb}-d{ds}.xz", lzma.compress(data, format=lzma.FORMAT_XZ, check=cv, filters=f), data, "xz")
    for (lc,lp,pb) in props:
        f = [{"id": lzma.FILTER_LZMA2, "lc": lc, "lp": lp, "pb": pb, "dict_size": 65536}]
        add(f"{iname}-raw2-lc{lc}lp{lp}pb{pb}.lzma2", lzma.compress(data, format=lzma.FORMAT_RAW, filters=f), data, "lzma2:65536")
    for (lc,lp,pb) in props + [(4,0,0),(0,4,4),(1,1,1)]:
        f = [{"id": lzma.FILTER_LZMA1, "lc": lc, "lp": lp, "pb": pb, "dict_size": 65536}]
        add(f"{iname}-alone-lc{lc}lp{lp}pb{pb}.lzma", lzma.compress(data, format=lzma.FORMAT_ALONE, filters=f), data, "lzma")
    for preset in (0, 1, 6, 9, 6 | lzma.PRESET_EXTREME):
        add(f"{iname}-p{preset & 15}{'e' if preset > 15 else ''}.xz", lzma.compress(data, preset=preset), data, "xz")
# xz binary: block size (multi block with size fields), multi-stream, padding
xz = None
for c in ("/root/miniconda/bin/xz", "/usr/bin/xz"):
    if os.path.exists(c): xz = c
if xz:
    for iname in ("text70000", "mix", "rep"):
        data = inputs[iname]
        for bs in (1000, 4096, 30000):
            r = subprocess.run([xz, "-c", "-T1", f"--block-size={bs}", "-6"], input=data, capture_output=True, check=True)
            add(f"{iname}-bs{bs}.xz", r.stdout, data, "xz")
        r = subprocess.run([xz, "-c", "-T2", "--block-size=5000"], input=data, capture_output=True, check=True)
        add(f"{iname}-mt.xz", r.stdout, data, "xz")
        r = subprocess.run([xz, "-c", "-F", "lzma", "-3"], input=data, capture_output=True, check=True)
        add(f"{iname}-xzbin.lzma", r.stdout, data, "lzma")
    a = lzma.compress(inputs["abc"]); b = lzma.compress(inputs["text3000"], check=lzma.CHECK_CRC32); e = lzma.compress(b"")
    add("multi-a-b.xz", a + b, inputs["abc"] + inputs["text3000"], "xz")
    add("multi-a-pad8-b-pad4.xz", a + b"\0"*8 + b + b"\0"*4, inputs["abc"] + inputs["text3000"], "xz")
    add("multi-e-a-e.xz", e + a + e, inputs["abc"], "xz")
json.dump(man, open(os.path.join(out, "MANIFEST.json"), "w"), indent=0)
print(len(man), "files", sum(os.path.getsize(os.path.join(out, m["file"])) for m in man), "bytes")
