#!/usr/bin/env python3
"""Second, additive corpus generation (run once; output committed; appends to MANIFEST.json):
mixed-entropy inputs (compressible / >=64 KiB incompressible / compressible) written by the xz
binary and by liblzma, so that the files contain uncompressed LZMA2 chunks followed by
compressed chunks with a state reset (control 0xa0) - chunk sequences the library's own writer
never emits."""
import lzma, hashlib, json, os, subprocess, random
out = os.path.dirname(os.path.abspath(__file__))
rng = random.Random(777)
def rnd(n): return bytes(rng.getrandbits(8) for _ in range(n))
def text(n):
    words = [b"alpha", b"beta", b"gamma", b"delta", b"the", b"of", b"and", b"xz", b"lzma", b"\n", b" "]
    b = bytearray()
    while len(b) < n: b += rng.choice(words) + b" "
    return bytes(b[:n])
inputs = {
 "mixA": text(3000) + rnd(70000) + text(3000),
 "mixB": rnd(140000) + text(5000),
 "mixC": text(2000) + rnd(66000) + text(1000) + rnd(66000) + text(2000) + b"\0" * 3000,
}
man = json.load(open(os.path.join(out, "MANIFEST.json")))
have = {m["file"] for m in man}
def add(name, data, plain, kind):
    if name in have: return
    open(os.path.join(out, name), "wb").write(data)
    man.append({"file": name, "kind": kind, "sha256": hashlib.sha256(plain).hexdigest(), "len": len(plain)})
xz = next((c for c in ("/root/miniconda/bin/xz", "/usr/bin/xz") if os.path.exists(c)), None)
for iname, data in inputs.items():
    for preset in (0, 6):
        add(f"{iname}-p{preset}.xz", lzma.compress(data, preset=preset, check=lzma.CHECK_CRC32), data, "xz")
    f = [{"id": lzma.FILTER_LZMA2, "lc": 1, "lp": 2, "pb": 1, "dict_size": 65536}]
    add(f"{iname}-raw2-lc1lp2pb1.lzma2", lzma.compress(data, format=lzma.FORMAT_RAW, filters=f), data, "lzma2:65536")
    if xz:
        r = subprocess.run([xz, "-c", "-T1", "-2", "--block-size=100000"], input=data, capture_output=True, check=True)
        add(f"{iname}-xzbin-bs100000.xz", r.stdout, data, "xz")
        r = subprocess.run([xz, "-c", "-F", "lzma", "-1"], input=data, capture_output=True, check=True)
        add(f"{iname}-xzbin.lzma", r.stdout, data, "lzma")
json.dump(man, open(os.path.join(out, "MANIFEST.json"), "w"), indent=0)
print(len(man), "files", sum(os.path.getsize(os.path.join(out, m["file"])) for m in man), "bytes")
