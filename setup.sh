#!/bin/bash
# MANIFEST.setup_cmd: build the harness once (warms the Go build cache, incl. the
# race-enabled standard library used by C14) from files on disk only.
set -e
export GOFLAGS=-mod=mod GOPROXY=off GOSUMDB=off GOTOOLCHAIN=local
cd /verif/harness
mkdir -p /verif/bin /verif/evidence /verif/replays
go build -o /verif/bin/vcheck.setup ./cmd/vcheck
rm -f /verif/bin/vcheck.setup
go vet ./core ./ref >/dev/null 2>&1 || true
(cd /repo && go build -o /verif/bin/gxz.setup ./cmd/gxz && rm -f /verif/bin/gxz.setup)
echo setup ok
