#!/bin/bash
# run.sh <ID> <quick|thorough>: rebuild the harness against /repo's current
# working tree, run the check, write evidence/<ID>.json.
set -u
export GOFLAGS=-mod=mod GOPROXY=off GOSUMDB=off GOTOOLCHAIN=local
export GOCACHE=${GOCACHE:-/root/.cache/go-build}
cd /verif/harness || exit 2
mkdir -p /verif/bin /verif/evidence /verif/replays
ID="$1"; TIER="${2:-quick}"
BIN=/verif/bin/vcheck.$$.$ID
if ! go build -o "$BIN" ./cmd/vcheck 2>/verif/bin/build.$ID.log; then
  echo "harness build failed against /repo working tree:" >&2
  cat /verif/bin/build.$ID.log >&2
  rm -f "$BIN"
  exit 2
fi
"$BIN" "$ID" --tier "$TIER"
rc=$?
rm -f "$BIN"
exit $rc
