#!/bin/bash
# run.sh <ID> <quick|thorough>: rebuild the harness against /repo's current
# working tree, run the check, write evidence/<ID>.json.
set -u
export GOFLAGS=-mod=mod GOPROXY=off GOSUMDB=off GOTOOLCHAIN=local
export GOCACHE=${GOCACHE:-/root/.cache/go-build}
cd /verif/harness || exit 2
mkdir -p /verif/bin /verif/evidence /verif/replays
ID="$1"; TIER="${2:-quick}"
BIN=/verif/bin/vcheck.$$.$ID
BUILDARGS=""
OVDIR=""
if [ "$ID" = "C14" ]; then
  OVDIR=/verif/bin/ov.$$
  if python3 /verif/tools/mkoverlay.py "$OVDIR" >/dev/null 2>&1 && go build -tags verifshim -overlay "$OVDIR/overlay.json" -o "$BIN" ./cmd/vcheck 2>/verif/bin/build.$ID.log; then
    BUILDARGS=done
  else
    echo "note: sync shim overlay build failed, falling back to the plain build" >&2
  fi
  if go build -race -o /verif/bin/vrace.$$ ./cmd/vrace 2>>/verif/bin/build.$ID.log; then
    export VERIF_RACE_BIN=/verif/bin/vrace.$$
  fi
fi
if [ "$BUILDARGS" != "done" ] && ! go build -o "$BIN" ./cmd/vcheck 2>/verif/bin/build.$ID.log; then
  echo "harness build failed against /repo working tree:" >&2
  cat /verif/bin/build.$ID.log >&2
  rm -f "$BIN"
  exit 2
fi
GXZ=""
case "$ID" in C10|C15)
  GXZ=/verif/bin/gxz.$$.$ID
  if ! (cd /repo && go build -o "$GXZ" ./cmd/gxz) 2>/verif/bin/build.$ID.log; then
    echo "gxz build failed:" >&2; cat /verif/bin/build.$ID.log >&2; rm -f "$BIN"; exit 2
  fi
  export VERIF_GXZ="$GXZ";;
esac
"$BIN" "$ID" --tier "$TIER"
rc=$?
rm -f "$BIN" $GXZ /verif/bin/vrace.$$
[ -n "$OVDIR" ] && rm -rf "$OVDIR"
exit $rc
