#!/bin/bash
# run.sh <ID> <quick|thorough>: rebuild the harness against /repo's current
# working tree, run the check, write evidence/<ID>.json.
set -u
export GOFLAGS=-mod=mod GOPROXY=off GOSUMDB=off GOTOOLCHAIN=local
export GOCACHE=${GOCACHE:-/root/.cache/go-build}
# soft memory limit for the check process (the garbage collector works harder above it; nothing fails)
export GOMEMLIMIT=${GOMEMLIMIT:-6GiB}
# relocatable: everything is relative to the directory of this script (so that a snapshot
# of /verif can run side by side); /repo is always the tree under test
ROOT="$(cd "$(dirname "$(readlink -f "$0")")" && pwd)"
export VERIF_ROOT="$ROOT"
cd "$ROOT/harness" || exit 2
mkdir -p "$ROOT/bin" "$ROOT/evidence" "$ROOT/replays"
ID="$1"; TIER="${2:-quick}"
BIN=$ROOT/bin/vcheck.$$.$ID
BUILDARGS=""
# VERIF_REPO (development only: mutation runs in a scratch worktree) selects another tree under
# test; the registered commands never set it, so they always build /repo's working tree.
# VERIF_OUT redirects evidence/, results/ and replays/ (so that such runs do not overwrite evidence).
REPO="${VERIF_REPO:-/repo}"
export VERIF_REPO="$REPO"
MODFLAG=""
if [ "$REPO" != "/repo" ]; then
  sed "s#=> /repo#=> $REPO#" go.mod > $ROOT/bin/go.$$.$ID.mod
  cp go.sum $ROOT/bin/go.$$.$ID.sum 2>/dev/null
  MODFLAG="-modfile=$ROOT/bin/go.$$.$ID.mod"
fi
[ -n "${VERIF_OUT:-}" ] && mkdir -p "$VERIF_OUT"
OVDIR=""
if [ "$ID" = "C14" ]; then
  OVDIR=$ROOT/bin/ov.$$
  if python3 $ROOT/tools/mkoverlay.py "$OVDIR" >/dev/null 2>&1 && go build $MODFLAG -tags verifshim -overlay "$OVDIR/overlay.json" -o "$BIN" ./cmd/vcheck 2>$ROOT/bin/build.$ID.log; then
    BUILDARGS=done
  else
    echo "note: sync shim overlay build failed, falling back to the plain build" >&2
  fi
  if go build $MODFLAG -race -o $ROOT/bin/vrace.$$ ./cmd/vrace 2>>$ROOT/bin/build.$ID.log; then
    export VERIF_RACE_BIN=$ROOT/bin/vrace.$$
  fi
fi
if [ "$BUILDARGS" != "done" ] && ! go build $MODFLAG -o "$BIN" ./cmd/vcheck 2>$ROOT/bin/build.$ID.log; then
  echo "harness build failed against /repo working tree:" >&2
  cat $ROOT/bin/build.$ID.log >&2
  rm -f "$BIN"
  exit 2
fi
GXZ=""
case "$ID" in C10|C15|C17)
  GXZ=$ROOT/bin/gxz.$$.$ID
  if ! (cd "$REPO" && go build -o "$GXZ" ./cmd/gxz) 2>$ROOT/bin/build.$ID.log; then
    echo "gxz build failed:" >&2; cat $ROOT/bin/build.$ID.log >&2; rm -f "$BIN"; exit 2
  fi
  export VERIF_GXZ="$GXZ";;
esac
"$BIN" "$ID" --tier "$TIER"
rc=$?
rm -f "$BIN" $GXZ $ROOT/bin/vrace.$$ $ROOT/bin/go.$$.$ID.mod $ROOT/bin/go.$$.$ID.sum
[ -n "$OVDIR" ] && rm -rf "$OVDIR"
exit $rc
