#!/bin/bash
# run.sh <ID> <quick|thorough>: rebuild the harness against /repo's current
# working tree, run the check, write evidence/<ID>.json.
set -u
export GOFLAGS=-mod=mod GOPROXY=off GOSUMDB=off GOTOOLCHAIN=local
export GOCACHE=${GOCACHE:-/root/.cache/go-build}
cd /verif/harness || exit 2
mkdir -p /verif/bin /verif/evidence /verif/replays
ID="$1"; TIER="${2:-quick}"
BIN=/verif/bin/vcheck.$$.$ID
if ! go build -o "$BIN" ./cmd/vcheck 2>/verif/bin/build.$ID.log; then
  echo "harness build failed against /repo working tree:" >&2
  cat /verif/bin/build.$ID.log >&2
  rm -f "$BIN"
  exit 2
fi
GXZ=""
case "$ID" in C10|C15)
  GXZ=/verif/bin/gxz.$$.$ID
  if ! (cd /repo && go build -o "$GXZ" ./cmd/gxz) 2>/verif/bin/build.$ID.log; then
    echo "gxz build failed:" >&2; cat /verif/bin/build.$ID.log >&2; rm -f "$BIN"; exit 2
  fi
  export VERIF_GXZ="$GXZ";;
esac
"$BIN" "$ID" --tier "$TIER"
rc=$?
rm -f "$BIN" $GXZ
exit $rc
