#!/usr/bin/env python3
"""Regenerates MANIFEST.json from the table below (edit here, not the JSON)."""
import json
ALL=[f"C{i:02d}" for i in range(1,19)]
checks={}
def chk(pid, cat, text, note, tech, engine="mc", design=None):
    checks[pid]={"property_id":pid,"quick_cmd":f"./run.sh {pid} quick","thorough_cmd":f"./run.sh {pid} thorough",
      "evidence_file":f"evidence/{pid}.json","replay_cmd_template":"cd harness && GOFLAGS=-mod=mod go run ./cmd/vcheck replay {path}","engine":engine,
      "level_claimed":{"category":cat,"text":text,"design_ref":design or f"DESIGN.md section 4 {pid}"},"level_note":note,"technique":tech}
exec(open("/verif/manifest_table.py").read())
# sub-families of these checks are repeated over the environment menus (DESIGN.md section 3)
ENV={"C01":"feed modes, sink kinds, source kinds of the decoding side","C02":"sink kinds and feed modes (family (s))","C03":"source kinds and io.Copy","C04":"bufio sources","C05":"nine source kinds and io.Copy",
 "C06":"io.Copy feeds, io.ByteWriter sinks","C07":"io.Copy feeds (writer side), source kinds / io.Copy / a first Read (reader side)","C08":"sink kinds, reused configuration variable","C09":"sinks with a Flush method or WriteString/ReadFrom",
 "C10":"output name '-'","C11":"bufio and data-with-EOF sources","C12":"bufio sources on and off the 4-byte grid","C15":"stdout as pipe / file / /dev/null, output name '-'","C16":"source kinds, one-byte chunks",
 "C17":"io.Copy feeds, the gxz tool itself","C18":"sink kinds at every code boundary"}
for k,v in ENV.items():
    checks[k]["level_claimed"]["text"]+=" Environment kinds (DESIGN.md section 3): "+v+"."
na=[{"property_id":i,"reason":"check under construction in this session (see DESIGN.md section 4); not claimed yet"} for i in ALL if i not in checks]
m={"version":1,"setup_cmd":"./setup.sh",
 "hooks":{"guard":"verif","enable":"no source hooks in /repo: checks observe the public API and the gxz binary built from the working tree; C14 injects a sync shim with `go build -overlay` at check time","baseline_off_cmd":"cd /repo && go test -mod=mod -vet=off -count=1 ./...","source_commits":[],"add_only":True},
 "engines":ENGINES,"checks":[checks[k] for k in sorted(checks)],"not_applicable":na,"notes":NOTES}
json.dump(m,open("/verif/MANIFEST.json","w"),indent=1)
print(len(checks),"checks,",len(na),"not applicable")
