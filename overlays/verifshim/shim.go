// Package verifshim replaces "sync" (and the used parts of "sync/atomic") in
// the repository's files when a check is built with `go build -overlay`. Every
// operation first calls Hook (a scheduling point of the cooperative scheduler);
// when no hook is installed the real primitives are used.
package verifshim

import (
	realsync "sync"
	realatomic "sync/atomic"
	"unsafe"
)

// Hook is called before every synchronisation operation. op is one of
// "lock","unlock","rlock","runlock","once","wg.add","wg.done","wg.wait","pool.get","pool.put","atomic".
// It returns true when the scheduler simulated the operation (the caller then
// skips the real primitive).
var Hook func(op string, obj unsafe.Pointer) bool

// Calls counts hook invocations (used by the harness to prove the overlay is active).
var Calls int64

func hook(op string, p unsafe.Pointer) bool {
	realatomic.AddInt64(&Calls, 1)
	if h := Hook; h != nil {
		return h(op, p)
	}
	return false
}

type Locker = realsync.Locker

type Mutex struct{ mu realsync.Mutex }

func (m *Mutex) Lock() {
	if hook("lock", unsafe.Pointer(m)) {
		return
	}
	m.mu.Lock()
}
func (m *Mutex) Unlock() {
	if hook("unlock", unsafe.Pointer(m)) {
		return
	}
	m.mu.Unlock()
}
func (m *Mutex) TryLock() bool { return m.mu.TryLock() }

type RWMutex struct{ mu realsync.RWMutex }

func (m *RWMutex) Lock() {
	if hook("lock", unsafe.Pointer(m)) {
		return
	}
	m.mu.Lock()
}
func (m *RWMutex) Unlock() {
	if hook("unlock", unsafe.Pointer(m)) {
		return
	}
	m.mu.Unlock()
}
func (m *RWMutex) RLock() {
	if hook("rlock", unsafe.Pointer(m)) {
		return
	}
	m.mu.RLock()
}
func (m *RWMutex) RUnlock() {
	if hook("runlock", unsafe.Pointer(m)) {
		return
	}
	m.mu.RUnlock()
}

type Once struct{ o realsync.Once }

func (o *Once) Do(f func()) {
	hook("once", unsafe.Pointer(o))
	o.o.Do(f)
}

type WaitGroup struct{ wg realsync.WaitGroup }

func (w *WaitGroup) Add(n int) { hook("wg.add", unsafe.Pointer(w)); w.wg.Add(n) }
func (w *WaitGroup) Done()     { hook("wg.done", unsafe.Pointer(w)); w.wg.Done() }
func (w *WaitGroup) Wait()     { hook("wg.wait", unsafe.Pointer(w)); w.wg.Wait() }

// Pool is deterministic (LIFO, never drops) so that executions replay.
type Pool struct {
	New   func() interface{}
	mu    realsync.Mutex
	items []interface{}
}

func (p *Pool) Get() interface{} {
	hook("pool.get", unsafe.Pointer(p))
	p.mu.Lock()
	defer p.mu.Unlock()
	if n := len(p.items); n > 0 {
		x := p.items[n-1]
		p.items = p.items[:n-1]
		return x
	}
	if p.New != nil {
		return p.New()
	}
	return nil
}

func (p *Pool) Put(x interface{}) {
	hook("pool.put", unsafe.Pointer(p))
	p.mu.Lock()
	p.items = append(p.items, x)
	p.mu.Unlock()
}

type Map = realsync.Map
type Cond = realsync.Cond

func NewCond(l Locker) *Cond { return realsync.NewCond(l) }

// ---- sync/atomic subset (files importing sync/atomic get this package under the name atomic) ----

func AddInt32(a *int32, d int32) int32 { hook("atomic", unsafe.Pointer(a)); return realatomic.AddInt32(a, d) }
func AddInt64(a *int64, d int64) int64 { hook("atomic", unsafe.Pointer(a)); return realatomic.AddInt64(a, d) }
func AddUint32(a *uint32, d uint32) uint32 {
	hook("atomic", unsafe.Pointer(a))
	return realatomic.AddUint32(a, d)
}
func AddUint64(a *uint64, d uint64) uint64 {
	hook("atomic", unsafe.Pointer(a))
	return realatomic.AddUint64(a, d)
}
func LoadInt32(a *int32) int32    { hook("atomic", unsafe.Pointer(a)); return realatomic.LoadInt32(a) }
func LoadInt64(a *int64) int64    { hook("atomic", unsafe.Pointer(a)); return realatomic.LoadInt64(a) }
func LoadUint32(a *uint32) uint32 { hook("atomic", unsafe.Pointer(a)); return realatomic.LoadUint32(a) }
func LoadUint64(a *uint64) uint64 { hook("atomic", unsafe.Pointer(a)); return realatomic.LoadUint64(a) }
func StoreInt32(a *int32, v int32) {
	hook("atomic", unsafe.Pointer(a))
	realatomic.StoreInt32(a, v)
}
func StoreInt64(a *int64, v int64) {
	hook("atomic", unsafe.Pointer(a))
	realatomic.StoreInt64(a, v)
}
func StoreUint32(a *uint32, v uint32) {
	hook("atomic", unsafe.Pointer(a))
	realatomic.StoreUint32(a, v)
}
func StoreUint64(a *uint64, v uint64) {
	hook("atomic", unsafe.Pointer(a))
	realatomic.StoreUint64(a, v)
}
func CompareAndSwapInt32(a *int32, o, n int32) bool {
	hook("atomic", unsafe.Pointer(a))
	return realatomic.CompareAndSwapInt32(a, o, n)
}
func CompareAndSwapInt64(a *int64, o, n int64) bool {
	hook("atomic", unsafe.Pointer(a))
	return realatomic.CompareAndSwapInt64(a, o, n)
}
func CompareAndSwapUint32(a *uint32, o, n uint32) bool {
	hook("atomic", unsafe.Pointer(a))
	return realatomic.CompareAndSwapUint32(a, o, n)
}

type Value = realatomic.Value
type Int32 = realatomic.Int32
type Int64 = realatomic.Int64
type Uint32 = realatomic.Uint32
type Uint64 = realatomic.Uint64
type Bool = realatomic.Bool
