#!/bin/bash
# runs every check's thorough tier in sequence and prints one summary line per check
ROOT="$(cd "$(dirname "$(readlink -f "$0")")" && pwd)"
cd "$ROOT"
for c in C18 C05 C12 C16 C09 C04 C10 C15 C13 C17 C03 C11 C02 C08 C07 C06 C14 C01; do
  s=$(date +%s)
  out=$(./run.sh $c thorough 2>&1)
  rc=$?
  echo "== $c rc=$rc $(( $(date +%s) - s ))s"
  echo "$out" | grep -E "^C[0-9]+ thorough|VIOLATION|signature|KNOWN|cap:|panic:|NONDET" | cut -c1-300 | head -12
done
