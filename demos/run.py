#!/usr/bin/env python3
"""demos/run.py [name...] — for each deliberate mutation: apply to /repo, run the repository's
tests (must pass), run the expected checks (quick; must exit 1 with a VIOLATION line), revert.
Prints one line per (mutation, check). Never leaves /repo modified."""
import subprocess, sys, os, json
sys.path.insert(0, os.path.dirname(__file__))
from mutations import M
env = dict(os.environ, GOFLAGS="-mod=mod", GOPROXY="off", GOSUMDB="off", GOTOOLCHAIN="local")
names = sys.argv[1:]
extra = [a[1:] for a in names if a.startswith("+")]   # +C01 : additionally run this check on every mutation
names = [a for a in names if not a.startswith("+")]
res = {}
def sh(cmd, cwd=None, timeout=3000):
    return subprocess.run(cmd, shell=True, cwd=cwd, env=env, capture_output=True, text=True, timeout=timeout)
assert sh("git status --porcelain", "/repo").stdout.strip() == "", "/repo not clean"
for name, f, old, new, checks in M:
    if names and name not in names: continue
    path = os.path.join("/repo", f)
    src = open(path).read()
    try:
        if old is None:
            continue
        if src.count(old) != 1:
            print(f"{name}: PATTERN-NOT-FOUND ({src.count(old)})"); continue
        open(path, "w").write(src.replace(old, new))
        b = sh("go build ./... && go test -vet=off -count=1 ./...", "/repo")
        tests_ok = b.returncode == 0
        line = [f"{name}: repo-tests={'pass' if tests_ok else 'FAIL'}"]
        for c in list(checks) + [e for e in extra if e not in checks]:
            r = sh(f"./run.sh {c} quick", "/verif")
            caught = r.returncode == 1 and "VIOLATION property=" + c in r.stdout
            line.append(f"{c}={'CAUGHT' if caught else 'missed(rc=%d)' % r.returncode}")
            res.setdefault(name, {})[c] = caught
        print(" ".join(line), flush=True)
    finally:
        open(path, "w").write(src)
        sh("git checkout -- .", "/repo")
json.dump(res, open("/verif/demos/last_results.json", "w"), indent=1)
