#!/bin/bash
# benign_targeted.sh: every property-preserving change against the checks its code can reach
# (decoder / xz reader changes: reader-facing checks; encoder / xz writer changes: writer-facing checks;
# gxz changes: C10 C15; mixed changes: all). Two streams in parallel. Results: benign_results.json.
cd /verif/demos
DEC="C03 C04 C05 C06 C07 C09 C11 C12 C13 C16"
ENC="C01 C02 C06 C07 C08 C09 C14 C16 C17 C18"
GXZ="C10 C15"
ALL="C01 C02 C03 C04 C05 C06 C07 C08 C09 C10 C11 C12 C13 C14 C15 C16 C17 C18"
run() { python3 benign.py "$@" >> /tmp/benign_$1.log 2>&1; tail -n 1 /tmp/benign_$1.log | cut -c1-300; }
(
 run error-texts $ALL; run chunk-limit-32k $ENC C03; run default-dict-4MiB $ENC; run xz-writer-single-index-write $ENC
 for p in enc-P enc-Q enc-R enc-S xzw-P xzw-Q xzw-R xzw-S; do run agent-$p $ENC; done
 for p in gxz-P gxz-Q gxz-R gxz-S; do run agent-$p $GXZ; done
 run gxz-bufio-64k $GXZ
 run agent-misc-Q $ENC; run agent-misc-S $ENC
) &
(
 run reader2-early-return $DEC; run no-eos-margin $ENC; run lzma-reader-bufio $DEC
 for p in dec-P dec-Q dec-R dec-S xzr-P xzr-Q xzr-R xzr-S; do run agent-$p $DEC C01 C18; done
 run agent-misc-P $DEC; run agent-misc-R $ALL
) &
wait
