#!/usr/bin/env python3
"""demos/benign.py [name...] — property-PRESERVING changes (false-alarm controls). For each one: a
scratch worktree of /repo gets the change, the repository's tests must pass, and EVERY check's
quick tier is run against the worktree (VERIF_REPO / VERIF_OUT) and must exit 0 without a
VIOLATION line. Nothing touches /repo. Results: demos/benign_results.json."""
import subprocess, sys, os, json, shutil
B = [
 ("error-texts", [("reader.go", 'errors.New("xz: checksum error for block")', 'errors.New("xz reader: block check value does not match")'),
                  ("reader.go", 'errors.New("xz: non-zero block padding")', 'errors.New("xz reader: block padding is not zero")'),
                  ("lzma/reader2.go", 'errors.New("lzma: Reader2 doesn\'t get data")', 'errors.New("lzma: no progress")')],
  "error message texts reworded"),
 ("reader2-early-return", [("lzma/reader2.go", "\t\t\t\terr = r.startChunk()\n\t\t\t\tif err == nil {\n\t\t\t\t\tcontinue\n\t\t\t\t}", "\t\t\t\terr = r.startChunk()\n\t\t\t\tif err == nil {\n\t\t\t\t\tif n > 0 {\n\t\t\t\t\t\treturn n, nil\n\t\t\t\t\t}\n\t\t\t\t\tcontinue\n\t\t\t\t}")],
  "Reader2.Read returns a short count at a chunk boundary (legal for io.Reader)"),
 ("no-eos-margin", [("lzma/encoder.go", "\tif e.marker {\n\t\te.margin += 5\n\t}", "\tif e.marker {\n\t\te.margin += 0\n\t}")],
  "encoder margin for the end marker dropped (only used with a limited writer, which never has a marker)"),
 ("chunk-limit-32k", [("lzma/header2.go", "\tmaxCompressed = 1 << 16", "\tmaxCompressed = 1 << 15")],
  "LZMA2 writer limits chunks to 32 KiB (compressed and raw): smaller chunks, still a valid stream"),
 ("default-dict-4MiB", [("writer.go", "\t\tc.DictCap = 8 * 1024 * 1024", "\t\tc.DictCap = 4 * 1024 * 1024")],
  "default dictionary capacity of the xz writer 4 MiB instead of 8 MiB"),
 ("gxz-bufio-64k", [("cmd/gxz/file.go", "\tw.bw = bufio.NewWriter(w.f)", "\tw.bw = bufio.NewWriterSize(w.f, 1<<16)"),
                    ("cmd/gxz/file.go", "\tbr := bufio.NewReader(f)", "\tbr := bufio.NewReaderSize(f, 1<<16)")],
  "gxz uses 64 KiB file buffers (different system call sequence)"),
 ("lzma-reader-bufio", [("lzma/reader.go", "\tr.d, err = newDecoder(ByteReader(lzma), state, dict, r.h.size)", "\tvar src io.ByteReader\n\tif b, ok := lzma.(io.ByteReader); ok {\n\t\tsrc = b\n\t} else {\n\t\tsrc = bufio.NewReaderSize(lzma, 512)\n\t}\n\tr.d, err = newDecoder(src, state, dict, r.h.size)"),
                        ("lzma/reader.go", 'import (\n\t"errors"\n\t"io"\n)', 'import (\n\t"bufio"\n\t"errors"\n\t"io"\n)')],
  "classic LZMA reader reads ahead through bufio when the source is not a ByteReader"),
 ("xz-writer-single-index-write", [("format.go", "func writeIndex(w io.Writer, index []record) (n int64, err error) {\n", "func writeIndex(ww io.Writer, index []record) (n int64, err error) {\n\tvar ibuf bytes.Buffer\n\tdefer func() {\n\t\tif err == nil {\n\t\t\t_, err = ww.Write(ibuf.Bytes())\n\t\t}\n\t}()\n\tw := &ibuf\n")],
  "index assembled in memory and written with one sink Write"),
]
env = dict(os.environ, GOFLAGS="-mod=mod", GOPROXY="off", GOSUMDB="off", GOTOOLCHAIN="local")
def sh(cmd, cwd=None, timeout=3600, extra=None):
    e = dict(env); e.update(extra or {})
    return subprocess.run(cmd, shell=True, cwd=cwd, env=e, capture_output=True, text=True, timeout=timeout)
# independently written property-preserving changes (sub-agents that were given the 18 property
# statements and asked for realistic refactorings / optimisations / robustness changes):
# demos/benign_patches/<area>-<letter>.patch.diff (+ .notes.md)
import glob
for pf in sorted(glob.glob(os.path.join(os.path.dirname(os.path.abspath(__file__)), "benign_patches", "*.patch.diff"))):
    nm = os.path.basename(pf)[:-len(".patch.diff")]
    B.append(("agent-" + nm, pf, "independently written (see benign_patches/%s.notes.md)" % nm))
CHECKS = ["C%02d" % i for i in range(1, 19)]
names = [a for a in sys.argv[1:] if not a.startswith("C")]
only = [a for a in sys.argv[1:] if a.startswith("C")] or CHECKS
resf = "/verif/demos/benign_results.json"
res = json.load(open(resf)) if os.path.exists(resf) else {}
for name, edits, why in B:
    if names and name not in names: continue
    wt, out = "/tmp/benign_" + name, "/tmp/benign_out_" + name
    sh(f"git -C /repo worktree remove --force {wt}"); shutil.rmtree(wt, ignore_errors=True); sh("git -C /repo worktree prune")
    assert sh(f"git -C /repo worktree add --detach {wt} HEAD").returncode == 0
    try:
        ok = True
        if isinstance(edits, str):
            a = sh(f"git apply {edits}", wt)
            if a.returncode != 0:
                print(f"{name}: PATCH-DOES-NOT-APPLY {a.stderr[-200:]}"); continue
            edits = []
        for f, old, new in edits:
            p = os.path.join(wt, f); s = open(p).read()
            if s.count(old) != 1:
                print(f"{name}: PATTERN-NOT-FOUND in {f} ({s.count(old)})"); ok = False; break
            open(p, "w").write(s.replace(old, new))
        if not ok: continue
        t = sh("go build ./... && go test -vet=off -count=1 ./...", wt)
        line = [f"{name}: repo-tests={'pass' if t.returncode == 0 else 'FAIL ' + (t.stdout + t.stderr)[-300:]}"]
        r0 = res.setdefault(name, {"why": why, "checks": {}})
        for c in only:
            r = sh(os.environ.get("VERIF_RUNSH", "/verif/run.sh") + f" {c} quick", "/verif", extra={"VERIF_REPO": wt, "VERIF_OUT": out})
            silent = r.returncode == 0 and "VIOLATION" not in r.stdout
            r0["checks"][c] = "silent" if silent else "ALARM rc=%d %s" % (r.returncode, " | ".join(l.strip() for l in r.stdout.splitlines() if "signature:" in l)[:300])
            line.append(f"{c}={'ok' if silent else 'ALARM'}")
        print(" ".join(line), flush=True)
    finally:
        sh(f"git -C /repo worktree remove --force {wt}"); shutil.rmtree(wt, ignore_errors=True); sh("git -C /repo worktree prune")
        shutil.rmtree(out, ignore_errors=True)
    cur = json.load(open(resf)) if os.path.exists(resf) else {}
    if name in res:
        if name in cur and "checks" in cur[name]:
            cur[name]["checks"].update(res[name]["checks"])
        else:
            cur[name] = res[name]
    json.dump(cur, open(resf, "w"), indent=1)
